#!/bin/bash
# Must-fail corpus: every kept seeded change is applied to a scratch worktree of /repo HEAD; the functions named in its
# meta.json (detected_by) are re-verified and the named obligation (or, for "#generate", the generation of the function)
# has to fail. Prints one line per seed; exit 1 if a seed is no longer detected. Optional argument: a seed id prefix.
cd /verif
rc=0
for meta in seeded/${1:-}*/meta.json; do
  d=$(dirname $meta); id=$(basename $d)
  IFS=$'\t' read -r funcs obls < <(python3 - "$meta" <<'PY'
import json,sys,re
m=json.load(open(sys.argv[1]))
det=m.get('detected_by','')
fs=[];obs=[]
for tok in re.findall(r'([A-Za-z_.*]+(?:\$[0-9]+)?)#([A-Za-z0-9_.:$*-]+)', det):
    f,o=tok
    if '.' in f:
        if f not in fs: fs.append(f)
        obs.append(f+'#'+o)
print(' '.join(fs) + '\t' + ('|'.join(obs) if obs else '-'))
PY
)
  if [ -z "$funcs" ]; then echo "$id SKIP (no detecting obligation recorded)"; continue; fi
  fl=$(echo "$funcs" | tr ' ' '\n' | sort -u | tr '\n' ' ')
  out=$(GOVC_T=60 tools/tryseed.sh $d/patch.diff $fl 2>&1)
  hit=0
  IFS='|' read -ra OB <<< "$obls"
  for o in "${OB[@]}"; do
    case "$o" in
      *#generate) f=${o%#generate}; echo "$out" | grep -q "$f: ERROR\|ERROR $f" && hit=1 ;;
      *) echo "$out" | grep -F "FAIL" | grep -qF "$o" && hit=1 ;;
    esac
  done
  if [ $hit = 1 ]; then echo "$id DETECTED by $(echo $obls | cut -c1-120)"; else
    if echo "$out" | grep -q "FAIL\|ERROR"; then echo "$id DETECTED-OTHER (named obligation passed; failing: $(echo "$out" | grep "FAIL\|ERROR" | head -2 | cut -c1-160 | tr '\n' ';'))"; else echo "$id MISSED by $fl"; rc=1; fi
  fi
done
exit $rc
