#!/bin/bash
# Must-fail corpus: every kept seeded change whose meta.json names a detecting obligation is applied to a scratch worktree of
# /repo HEAD; the functions named there are re-verified and at least one obligation has to fail. Prints one line per seed.
cd /verif
rc=0
for meta in seeded/*/meta.json; do
  d=$(dirname $meta); id=$(basename $d)
  funcs=$(python3 - "$meta" <<'PY'
import json,sys,re
m=json.load(open(sys.argv[1]))
det=m.get('detected_by','')
fs=[]
for tok in re.findall(r'[A-Za-z_.*]+(?:\$[0-9]+)?#', det):
    f=tok[:-1]
    if f and f not in fs and '.' in f: fs.append(f)
print(' '.join(fs))
PY
)
  if [ -z "$funcs" ]; then echo "$id SKIP (no detecting obligation recorded)"; continue; fi
  out=$(tools/tryseed.sh $d/patch.diff $funcs 2>&1)
  if echo "$out" | grep -q "FAIL\|ERROR"; then echo "$id DETECTED ($(echo "$out" | grep -c "FAIL\|ERROR") failing) by $funcs"; else echo "$id MISSED by $funcs"; rc=1; fi
done
exit $rc
