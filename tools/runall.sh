#!/bin/bash
# usage: runall.sh [quick|thorough] : runs every claimed check in turn, prints one line per property
tier=${1:-quick}
cd /verif
for p in $(python3 -c "import json;print(' '.join(c['property_id'] for c in json.load(open('/verif/MANIFEST.json'))['checks']))"); do
  t0=$(date +%s)
  out=$(/verif/bin/govc check --prop $p --tier $tier 2>&1); rc=$?
  t1=$(date +%s)
  echo "$p rc=$rc $((t1-t0))s $(echo "$out" | tail -1)"
  echo "$out" | grep "VIOLATION\|KNOWN-FINDING" | head -5
done
