#!/bin/bash
# usage: mutant.sh <patch> <prop> [more props...]   -- applies patch to a scratch worktree of /repo and runs the check(s); expects a VIOLATION.
set -u
patch=$(realpath "$1"); shift
wt=$(mktemp -d /tmp/govc-mut-XXXXXX)
git -C /repo worktree add --detach -q "$wt" HEAD >/dev/null 2>&1 || { echo "worktree failed"; exit 2; }
# carry over uncommitted contract files
for f in $(cd /repo && git ls-files -o --exclude-standard | grep zz_contracts_verif.go); do cp /repo/$f $wt/$f; done
if ! git -C "$wt" apply "$patch"; then echo "PATCH DOES NOT APPLY: $patch"; git -C /repo worktree remove --force "$wt"; exit 2; fi
rc=0
for prop in "$@"; do
  out=$(GOVC_REPO=$wt /verif/bin/govc check --prop $prop 2>&1); r=$?
  echo "$out" | grep -E "^VIOLATION|^  obligation|^KNOWN|^C[0-9]+:" | sed "s#$wt#/repo#g" | head -${MUT_LINES:-6}
  [ $r -ne 0 ] && rc=1
done
git -C /repo worktree remove --force "$wt"; rm -rf "$wt"
if [ $rc -eq 1 ]; then echo "KILLED $(basename $patch)"; exit 0; else echo "SURVIVED $(basename $patch)"; exit 1; fi
