#!/bin/bash
# No-false-alarm corpus: every behaviour-preserving edit in seeded/benign is applied to a scratch worktree of /repo HEAD and the
# functions it touches are re-verified; every obligation has to discharge. Prints one line per edit; exit 1 if any edit raises an alarm.
cd /verif
rc=0
while read id keys; do
  [ -z "$id" ] && continue
  out=$(tools/tryseed.sh seeded/benign/$id.diff $keys 2>&1)
  if echo "$out" | grep -q "FAIL\|ERROR\|DOES NOT APPLY"; then echo "$id ALARM: $(echo "$out" | grep "FAIL\|ERROR\|APPLY" | head -2)"; rc=1; else echo "$id quiet ($keys)"; fi
done < <(grep -v '^#' seeded/benign/keys.txt)
exit $rc
