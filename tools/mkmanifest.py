#!/usr/bin/env python3
"""Generates /verif/MANIFEST.json from the table below (single source for claimed checks and not_applicable reasons)."""
import json, subprocess

BASELINE_OFF = ("cd /repo && export PATH=/opt/veriftools/go1.26.8/bin:$PATH GOFLAGS=-mod=mod GOPROXY=off GOSUMDB=off GOTOOLCHAIN=local && "
                "go test -vet=off -count=1 -timeout 25m ./...")

TECH = "contract-based deductive verification: WP-style VCs over go/ssa of the real code, discharged by z3/cvc5"

CLAIMED = {
    "C18": dict(cat="proof", ref="DESIGN.md §4.18",
        text=("Unbounded per-call proof that MemoryStorage and the unstable log behave like an abstract list of entries with a compacted prefix: representation "
              "invariants are preserved by every operation and every query/update satisfies a functional postcondition over the abstract view (exact error ranges, "
              "term-at, size-limited non-empty windows, append/overwrite-from-index, compaction, ABA-safe persistence acknowledgements, no overwritten cell is exposed). "
              "Composes over arbitrary operation sequences by induction on the sequence. Found and fixed defect F-1 (Term panicking for i-offset >= 2^63)."),
        note=("Trusted: govc semantics, SMT solvers; proto.Clone modelled as fresh deep copy, proto.Size as uninterpreted function; sync.Mutex ignored (single-threaded); "
              "A-arith (indexes + lengths < 2^63, slice windows <= 2^31). The combined raftLog view (log.go) is covered where its functions are under contract; "
              "the Storage interface seen from raftLog is an assumed contract proved for MemoryStorage only.")),
    "C12": dict(cat="proof", ref="DESIGN.md §4.12",
        text=("Unbounded proof that the real quorum functions compute exactly what the property states, with the specification written in counting form "
              "over the voter set: VoteResult == Won iff #yes >= n/2+1, Lost iff #yes + #missing < n/2+1, Pending otherwise (empty set wins); "
              "CommittedIndex r satisfies #{ack >= r} >= n/2+1 (for r > 0) and #{ack > r} < n/2+1 (missing = 0); the joint functions combine the halves "
              "(min / both-won, an empty half imposes no constraint). Map iteration is verified for an arbitrary order."),
        note=("Trusted: govc semantics, SMT solvers; slices.Sort contract (sorted permutation); engine axioms A-count (count along any enumeration = count of the set) "
              "and L-count (point update, all-zero array, order statistic of a sorted window, permutation invariance of array counts) - elementary counting facts not proved in SMT; "
              "the AckedIndexer interface is abstracted by an uninterpreted acknowledgement function.")),
    "C16": dict(cat="proof", ref="DESIGN.md §4.16",
        text=("Unbounded proof, per function, of the size/flow-control clauses: limitSize returns a non-empty maximal prefix within the byte budget "
              "(single oversized entry excepted); Inflights ring-buffer operations keep count <= size, Add requires not-Full and enqueues exactly one "
              "message (so the byte limit is exceeded by at most the message that crosses it), FreeLE frees exactly the maximal prefix <= to. "
              "Every obligation is a universally quantified VC over the real SSA; a regression in one of these functions fails a named obligation."),
        note=("Trusted: govc's SSA->SMT semantics, go/ssa, the SMT solvers; proto.Size as an uninterpreted non-negative function (<= 2^31); "
              "A-arith (slice windows <= 2^31 elements); recursive sum definition sumsize with one derived range fact.")),
}

NOT_YET = "no contract-based check has been built for this property yet (work in progress; see DESIGN.md §11 build order)"
NA = {
    "C15": "liveness of a multi-node system under fairness: function contracts and (two-state) invariants constrain single calls on one node and cannot "
           "state that something eventually happens across nodes; per-call termination variants are discharged but do not imply convergence (DESIGN.md §5)",
}

ALL = ["C%02d" % i for i in range(1, 21)]

def main():
    commits = subprocess.run(["git", "-C", "/repo", "log", "--format=%H %s"], capture_output=True, text=True).stdout.splitlines()
    hook_commits = [l.split()[0] for l in commits if " verif:" in l or " hooks:" in l or "verif hook" in l]
    checks = []
    for pid in ALL:
        if pid not in CLAIMED:
            continue
        c = CLAIMED[pid]
        checks.append(dict(
            property_id=pid,
            quick_cmd="/verif/bin/govc check --prop %s --tier quick" % pid,
            thorough_cmd="/verif/bin/govc check --prop %s --tier thorough" % pid,
            evidence_file="/verif/evidence/%s.json" % pid,
            replay_cmd_template="/verif/bin/govc replay {path}",
            engine="govc",
            level_claimed=dict(category=c["cat"], text=c["text"], design_ref=c["ref"]),
            level_note=c["note"],
            technique=TECH,
        ))
    na = []
    for pid in ALL:
        if pid in CLAIMED:
            continue
        na.append(dict(property_id=pid, reason=NA.get(pid, NOT_YET)))
    m = dict(
        version=1,
        setup_cmd="cd /verif/govc && PATH=/opt/veriftools/go1.26.8/bin:$PATH GOFLAGS=-mod=mod GOPROXY=off GOSUMDB=off GOTOOLCHAIN=local go build -o /verif/bin/govc .",
        hooks=dict(guard="verif", enable="-tags=verif (adds comment-only contract files zz_contracts_verif.go; no executable code)",
                   baseline_off_cmd=BASELINE_OFF, source_commits=hook_commits, add_only=True),
        engines=[dict(name="govc", path="/verif/govc", serves_properties=sorted(CLAIMED),
                      kind_free_text="verification-condition generator for Go (go/ssa -> SMT-LIB) with Gobra-style contracts in comment-only files; portfolio of z3-new, cvc5, z3")],
        checks=checks,
        not_applicable=na,
        notes="Contracts live in /repo/**/zz_contracts_verif.go (build tag verif, comment-only) with a mirror in /verif/contracts. See /verif/DESIGN.md.",
    )
    json.dump(m, open("/verif/MANIFEST.json", "w"), indent=1)
    print("wrote MANIFEST.json: %d checks, %d not_applicable" % (len(checks), len(na)))

main()
