#!/usr/bin/env python3
"""Generates /verif/MANIFEST.json from the table below (single source for claimed checks and not_applicable reasons)."""
import json, subprocess

BASELINE_OFF = ("cd /repo && export PATH=/opt/veriftools/go1.26.8/bin:$PATH GOFLAGS=-mod=mod GOPROXY=off GOSUMDB=off GOTOOLCHAIN=local && "
                "go test -vet=off -count=1 -timeout 25m ./...")

TECH = "contract-based deductive verification: WP-style VCs over go/ssa of the real code, discharged by z3/cvc5"

DESIGN_REF = {"C%02d" % i: "DESIGN.md §4.%d" % i for i in range(1, 21)}
COMMON_NOTE = ("Trusted base: govc's SSA->SMT semantics (go/ssa of x/tools, Burstall heap, exact wrap-around integers), the SMT solvers (z3 5.1, z3 4.8, cvc5 1.0); "
               "engine axioms A-count / L-count (elementary counting facts) and stability/footprint rules for opaque specs (stability lemmas are proved per spec); "
               "library contracts (proto.Size uninterpreted, proto.Clone fresh deep copy, proto.Unmarshal/Marshal effects, slices.Sort sorted permutation, encoding/binary, fmt/Logger without effect); "
               "A-arith (slice windows <= 2^31, indexes < 2^62 where stated in #a-arith preconditions); environment assumptions appear as labelled preconditions "
               "(E-msg-wf, E-ready-contract, E-app-conf, E-leader-complete, E-snapshot-conf-valid) and are listed per function in the evidence file together with every "
               "trusted contract (raft.switchToConfig, raft.appliedSnap, confchange.Restore, "
               "assertConfStatesEquivalent, confchange.symdiff, lockedRand.Intn, DescribeConfChange).")
props = json.loads(subprocess.run(["/verif/bin/govc", "props"], capture_output=True, text=True, check=True).stdout)
CLAIMED = {pid: dict(cat=v["Level"], ref=DESIGN_REF[pid], text=v["Explanation"], note=COMMON_NOTE) for pid, v in props.items()}

NOT_YET = "no contract-based check has been built for this property yet (see DESIGN.md §12)"
NA = {
    "C15": "liveness of a multi-node system under fairness: function contracts and (two-state) invariants constrain single calls on one node and cannot "
           "state that something eventually happens across nodes; per-call termination variants are discharged but do not imply convergence (DESIGN.md §5)",
}

ALL = ["C%02d" % i for i in range(1, 21)]

def main():
    commits = subprocess.run(["git", "-C", "/repo", "log", "--format=%H %s"], capture_output=True, text=True).stdout.splitlines()
    hook_commits = [l.split()[0] for l in commits if " verif:" in l or " hooks:" in l or "verif hook" in l]
    checks = []
    for pid in ALL:
        if pid not in CLAIMED:
            continue
        c = CLAIMED[pid]
        checks.append(dict(
            property_id=pid,
            quick_cmd="/verif/bin/govc check --prop %s --tier quick" % pid,
            thorough_cmd="/verif/bin/govc check --prop %s --tier thorough" % pid,
            evidence_file="/verif/evidence/%s.json" % pid,
            replay_cmd_template="/verif/bin/govc replay {path}",
            engine="govc",
            level_claimed=dict(category=c["cat"], text=c["text"], design_ref=c["ref"]),
            level_note=c["note"],
            technique=TECH,
        ))
    na = []
    for pid in ALL:
        if pid in CLAIMED:
            continue
        na.append(dict(property_id=pid, reason=NA.get(pid, NOT_YET)))
    m = dict(
        version=1,
        setup_cmd="cd /verif/govc && PATH=/opt/veriftools/go1.26.8/bin:$PATH GOFLAGS=-mod=mod GOPROXY=off GOSUMDB=off GOTOOLCHAIN=local go build -o /verif/bin/govc .",
        hooks=dict(guard="verif", enable="-tags=verif (adds comment-only contract files zz_contracts_verif.go; no executable code)",
                   baseline_off_cmd=BASELINE_OFF, source_commits=hook_commits, add_only=True),
        engines=[dict(name="govc", path="/verif/govc", serves_properties=sorted(CLAIMED),
                      kind_free_text="verification-condition generator for Go (go/ssa -> SMT-LIB) with Gobra-style contracts in comment-only files; portfolio of z3-new, cvc5, z3")],
        checks=checks,
        not_applicable=na,
        notes="Contracts live in /repo/**/zz_contracts_verif.go (build tag verif, comment-only) with a mirror in /verif/contracts. See /verif/DESIGN.md.",
    )
    json.dump(m, open("/verif/MANIFEST.json", "w"), indent=1)
    print("wrote MANIFEST.json: %d checks, %d not_applicable" % (len(checks), len(na)))

main()
