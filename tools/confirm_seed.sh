#!/bin/bash
# usage: confirm_seed.sh <dir with patch.diff and *_test.go demo> ; confirms: suite passes with change, demo fails with change, demo passes without
set -u
d=$(realpath "$1")
export PATH=/opt/veriftools/go1.26.8/bin:$PATH GOFLAGS=-mod=mod GOPROXY=off GOSUMDB=off GOTOOLCHAIN=local
wt=$(mktemp -d /tmp/govc-confirm-XXXXXX)
git -C /repo worktree add --detach -q "$wt" 1ce5d2b >/dev/null 2>&1 || { echo "worktree failed"; exit 2; }
cleanup() { git -C /repo worktree remove --force "$wt" >/dev/null 2>&1; rm -rf "$wt"; }
trap cleanup EXIT
cd "$wt"
git apply "$d/patch.diff" || { echo "RESULT: patch does not apply"; exit 1; }
go build ./... || { echo "RESULT: does not compile"; exit 1; }
go test -vet=off -count=1 ./... > "$wt/.suite.log" 2>&1; rc=$?
if [ $rc -ne 0 ]; then sleep 1; go test -vet=off -count=1 ./... > "$wt/.suite.log" 2>&1; rc=$?; fi   # rafttest has a timing-flaky test: retry once
[ $rc -eq 0 ] && echo "suite-with-change: PASS" || { echo "suite-with-change: FAIL"; grep -E "^(--- FAIL|FAIL|panic)" "$wt/.suite.log" | head -5; }
rm -f "$wt/.suite.log"
demos=$(ls "$d"/*_test.go 2>/dev/null)
pkgdir() { p=$(grep -m1 '^package ' "$1" | awk '{print $2}'); case "$p" in raft|raft_test) echo .;; *) echo "${p%_test}";; esac; }
names=""
for f in $demos; do pd=$(pkgdir $f); cp "$f" "$pd/zz_seed_$(basename $f)"; names="$names $(grep -o 'func Test[A-Za-z0-9_]*' $f | awk '{print $2}' | tr '\n' '|')"; done
names=$(echo $names | tr -d ' ' | sed 's/|$//')
for f in $demos; do pd=$(pkgdir $f); break; done
with=$(go test -vet=off -count=1 -timeout 120s -run "^($names)\$" ./$pd 2>&1 | tail -3)
echo "$with" | grep -q "^ok" && echo "demo-with-change: PASS (unexpected)" || echo "demo-with-change: FAIL (expected)"
git apply -R "$d/patch.diff"
without=$(go test -vet=off -count=1 -timeout 120s -run "^($names)\$" ./$pd 2>&1 | tail -3)
echo "$without" | grep -q "^ok" && echo "demo-without-change: PASS (expected)" || { echo "demo-without-change: FAIL (unexpected)"; echo "$without"; }
