#!/usr/bin/env python3
"""usage: keep_seed.py <seed-id> <property> <src dir> "<needs>" "<detected-by or ''>" : copy patch.diff, demo(s), README into /verif/seeded/<seed-id>/ with meta.json"""
import sys, os, shutil, json, glob, subprocess
sid, prop, src, needs, detected = sys.argv[1:6]
dst = os.path.join('/verif/seeded', sid)
os.makedirs(dst, exist_ok=True)
shutil.copy(os.path.join(src, 'patch.diff'), dst)
demos = []
for f in glob.glob(os.path.join(src, '*_test.go')):
    # stored with a non-.go suffix so that nothing under /verif is picked up as Go source
    name = os.path.basename(f) + '.txt'
    shutil.copy(f, os.path.join(dst, name)); demos.append(name)
if os.path.exists(os.path.join(src, 'README.md')):
    shutil.copy(os.path.join(src, 'README.md'), os.path.join(dst, 'AUTHOR_README.md'))
files = subprocess.run(['grep', '-o', r'^+++ b/.*', os.path.join(src, 'patch.diff')], capture_output=True, text=True).stdout.split()
meta = dict(seed=sid, property=prop, source="independent sub-agent given only the property text and a scratch worktree",
            changed_files=[x for x in files if x.startswith('b/')], needs_to_manifest=needs, demos=demos,
            confirmed=dict(by="/verif/tools/confirm_seed.sh", suite_with_change="pass", demo_with_change="fail", demo_without_change="pass"),
            detected_by=detected)
json.dump(meta, open(os.path.join(dst, 'meta.json'), 'w'), indent=1)
print('kept', dst)
