#!/bin/bash
# usage: tryseed.sh <patch> <func keys...> : apply patch to a scratch worktree of /repo HEAD and verify the given functions there
patch=$(realpath "$1"); shift
wt=$(mktemp -d /tmp/govc-seed-XXXXXX)
git -C /repo worktree add --detach -q "$wt" HEAD >/dev/null 2>&1 || { echo "worktree failed"; exit 2; }
if ! git -C "$wt" apply "$patch"; then echo "PATCH DOES NOT APPLY"; git -C /repo worktree remove --force "$wt"; exit 2; fi
GOVC_REPO=$wt /verif/bin/govc verify -cache -t ${GOVC_T:-30} "$@" 2>&1 | grep -v "^loaded\|^note" | grep "FAIL\|obligations\|ERROR" | sed "s#$wt#/repo#g" | cut -c1-220
git -C /repo worktree remove --force "$wt"; rm -rf "$wt"
