//go:build verif

// Contracts for package confchange (comment-only; read by /verif/govc; see /verif/DESIGN.md §2.2 and §4.13).
package confchange

//@ -- ------------------------------------------------------------------------------------------
//@ -- sets of ids are maps to struct{}; nil and empty are both the empty set

//@ func confchange.joint
//@   inline
//@ func confchange.incoming
//@   inline
//@ func confchange.outgoing
//@   inline
//@ func confchange.outgoingPtr
//@   inline

//@ -- nilAwareAdd / nilAwareDelete take the address of a struct field (an interior pointer): they are verified in the context of
//@ -- their callers (inlined)
//@ func confchange.nilAwareAdd
//@   inline
//@ func confchange.nilAwareDelete
//@   inline

//@ -- ------------------------------------------------------------------------------------------
//@ -- the invariants of a configuration (C13): every member has a progress record, staged learners are outgoing voters not yet
//@ -- marked as learners, learners are disjoint from both voter sets and marked, and a non-joint configuration has no staging

//@ pred isMember(cfg tracker.Config, id uint64) := has(cfg.Voters[0], id) || has(cfg.Voters[1], id) || has(cfg.Learners, id) || has(cfg.LearnersNext, id)
//@ pred progress_values_nonnil(trk tracker.ProgressMap) := forall id uint64 :: has(trk, id) ==> trk[id] != nil
//@ pred cfg_inv(cfg tracker.Config, trk tracker.ProgressMap) :=
//@     (forall id uint64 :: isMember(cfg, id) ==> has(trk, id))
//@     && (forall id uint64 :: has(cfg.LearnersNext, id) ==> has(cfg.Voters[1], id) && !trk[id].IsLearner)
//@     && (forall id uint64 :: has(cfg.Learners, id) ==> !has(cfg.Voters[0], id) && !has(cfg.Voters[1], id) && trk[id].IsLearner)
//@     && (len(cfg.Voters[1]) == 0 ==> cfg.Voters[1] == nil && cfg.LearnersNext == nil && !cfg.AutoLeave)

//@ func confchange.checkInvariants [C13 C14]
//@   frame elems quorum.MajorityConfig:
//@   requires #progress-nonnil [C14] progress_values_nonnil(trk)
//@   ensures #members-have-progress [C13] result == nil ==> (forall id uint64 :: isMember(cfg, id) ==> has(trk, id))
//@   ensures #staged-are-outgoing [C13] result == nil ==> (forall id uint64 :: has(cfg.LearnersNext, id) ==> has(cfg.Voters[1], id) && !trk[id].IsLearner)
//@   ensures #learners-disjoint [C13] result == nil ==> (forall id uint64 :: has(cfg.Learners, id) ==> !has(cfg.Voters[0], id) && !has(cfg.Voters[1], id) && trk[id].IsLearner)
//@   ensures #non-joint-clean [C13] result == nil ==> (len(cfg.Voters[1]) == 0 ==> cfg.Voters[1] == nil && cfg.LearnersNext == nil && !cfg.AutoLeave)
//@   ensures #checked [C13] result == nil ==> cfg_inv(cfg, trk)
//@   loop 1 invariant #locals-kept allocframe("E$quorum.MajorityConfig", "F$tracker.Config", "E$map[uint64]struct{}")
//@   loop 1 invariant #outer 0 <= iter && iter <= 3
//@        && (iter >= 1 ==> (forall id uint64 :: has(cfg.Voters[0], id) || has(cfg.Voters[1], id) ==> has(trk, id)))
//@        && (iter >= 2 ==> (forall id uint64 :: has(cfg.Learners, id) ==> has(trk, id)))
//@        && (iter >= 3 ==> (forall id uint64 :: has(cfg.LearnersNext, id) ==> has(trk, id)))
//@   loop 2 invariant #locals-kept allocframe("E$quorum.MajorityConfig", "F$tracker.Config", "E$map[uint64]struct{}")
//@   loop 2 invariant #inner 0 <= slice_iter && slice_iter < 3 && (forall id uint64 :: seen(id) ==> has(trk, id))
//@        && (slice_iter >= 1 ==> (forall id uint64 :: has(cfg.Voters[0], id) || has(cfg.Voters[1], id) ==> has(trk, id)))
//@        && (slice_iter >= 2 ==> (forall id uint64 :: has(cfg.Learners, id) ==> has(trk, id)))
//@   loop 3 invariant #locals-kept allocframe("E$quorum.MajorityConfig", "F$tracker.Config", "E$map[uint64]struct{}")
//@   loop 3 invariant #staged (forall id uint64 :: seen(id) ==> has(cfg.Voters[1], id) && !trk[id].IsLearner)
//@        && (forall id uint64 :: isMember(cfg, id) ==> has(trk, id))
//@   loop 4 invariant #locals-kept allocframe("E$quorum.MajorityConfig", "F$tracker.Config", "E$map[uint64]struct{}")
//@   loop 4 invariant #learners (forall id uint64 :: seen(id) ==> !has(cfg.Voters[0], id) && !has(cfg.Voters[1], id) && trk[id].IsLearner)
//@        && (forall id uint64 :: isMember(cfg, id) ==> has(trk, id))
//@        && (forall id uint64 :: has(cfg.LearnersNext, id) ==> has(cfg.Voters[1], id) && !trk[id].IsLearner)

//@ pred trk_only_members(cfg tracker.Config, trk tracker.ProgressMap) := forall id uint64 :: has(trk, id) ==> isMember(cfg, id)

//@ -- progress records across a configuration change (C13/C16): the working copy carries every field of a remaining peer's record over
//@ -- (sharing its inflight window), a new peer starts from the initial record, and no record is shared between two ids
//@ pred progress_carried(a *tracker.Progress, b *tracker.Progress) := a.Match == b.Match && a.Next == b.Next && a.State == b.State && a.PendingSnapshot == b.PendingSnapshot
//@     && a.RecentActive == b.RecentActive && a.MsgAppFlowPaused == b.MsgAppFlowPaused && a.sentCommit == b.sentCommit && a.Inflights == b.Inflights
//@ pred progress_initial(p *tracker.Progress, c Changer) := p.Match == 0 && p.Next == max(c.LastIndex, 1) + 0 && p.State == 0 && p.PendingSnapshot == 0 && p.RecentActive
//@     && !p.MsgAppFlowPaused && p.sentCommit == 0 && wf_inflights(p.Inflights) && p.Inflights.count == 0 && p.Inflights.bytes == 0
//@     && p.Inflights.size == c.Tracker.MaxInflight && p.Inflights.maxBytes == c.Tracker.MaxInflightBytes
//@ pred records_distinct(trk tracker.ProgressMap) := forall a uint64, b uint64 :: {has(trk, a), has(trk, b)} has(trk, a) && has(trk, b) && a != b ==> trk[a] != trk[b]
//@ pred core_same(p *tracker.Progress) := p.Match == old(p.Match) && p.Next == old(p.Next) && p.Inflights == old(p.Inflights) && p.State == old(p.State)
//@     && p.PendingSnapshot == old(p.PendingSnapshot) && p.RecentActive == old(p.RecentActive) && p.MsgAppFlowPaused == old(p.MsgAppFlowPaused) && p.sentCommit == old(p.sentCommit)

//@ func confchange.checkAndReturn [C13]
//@   frame elems quorum.MajorityConfig:
//@   requires #progress-nonnil [C14] progress_values_nonnil(trk)
//@   ensures #ok [C13] result2 == nil ==> cfg_inv(cfg, trk) && result1 == trk && result0 == cfg
//@   ensures #err [C13] result2 != nil ==> len(result1) == 0 && result0.Voters[0] == nil && result0.Voters[1] == nil && result0.Learners == nil && result0.LearnersNext == nil && !result0.AutoLeave
//@   ensures #untouched [C13] allocframe("M$map[uint64]struct{}", "F$tracker.Progress", "M$map[uint64]*tracker.Progress")

//@ func confchange.Changer.err
//@   inline

//@ -- the working copy: fresh sets and fresh progress records equal to the input's; the input itself is never written
//@ func confchange.Changer.checkAndCopy [C13]
//@   frame elems quorum.MajorityConfig:
//@   requires #progress-nonnil [C14] progress_values_nonnil(c.Tracker.Progress)
//@   ensures #copy-sets [C13] result2 == nil ==> sameSet(result0.Voters[0], c.Tracker.Voters[0]) && sameSet(result0.Voters[1], c.Tracker.Voters[1])
//@        && sameSet(result0.Learners, c.Tracker.Learners) && sameSet(result0.LearnersNext, c.Tracker.LearnersNext) && !result0.AutoLeave
//@   ensures #copy-progress [C13] result2 == nil ==> result1 != nil && fresh(result1) && (forall id uint64 :: has(result1, id) == has(c.Tracker.Progress, id))
//@        && (forall id uint64 :: has(result1, id) ==> result1[id] != nil && fresh(result1[id]) && result1[id].IsLearner == c.Tracker.Progress[id].IsLearner
//@              && progress_carried(result1[id], c.Tracker.Progress[id]))
//@   ensures #copy-distinct [C13] result2 == nil ==> records_distinct(result1)
//@   ensures #fresh-sets [C13] result2 == nil ==> (result0.Voters[0] != nil ==> fresh(result0.Voters[0])) && (result0.Voters[1] != nil ==> fresh(result0.Voters[1]))
//@        && (result0.Learners != nil ==> fresh(result0.Learners)) && (result0.LearnersNext != nil ==> fresh(result0.LearnersNext))
//@   ensures #checked [C13] result2 == nil ==> cfg_inv(result0, result1)
//@   ensures #distinct-sets [C13] result2 == nil ==> (result0.Voters[0] != result0.Voters[1] || result0.Voters[0] == nil) && (result0.Voters[0] != result0.Learners || result0.Learners == nil)
//@        && (result0.Voters[0] != result0.LearnersNext || result0.LearnersNext == nil) && (result0.Voters[1] != result0.Learners || result0.Learners == nil)
//@        && (result0.Voters[1] != result0.LearnersNext || result0.LearnersNext == nil) && (result0.Learners != result0.LearnersNext || result0.Learners == nil)
//@   ensures #input-untouched [C13] allocframe("M$map[uint64]struct{}", "M$map[uint64]*tracker.Progress", "F$tracker.Progress", "F$tracker.Inflights")
//@   loop 1 invariant #copying trk != nil && fresh(trk) && len(trk) == iter && (forall id uint64 :: has(trk, id) <==> seen(id))
//@        && (forall id uint64 :: has(trk, id) ==> trk[id] != nil && fresh(trk[id]) && trk[id].IsLearner == c.Tracker.Progress[id].IsLearner
//@              && progress_carried(trk[id], c.Tracker.Progress[id]))
//@   loop 1 invariant #distinct records_distinct(trk)
//@   loop 1 invariant #input-untouched allocframe("M$map[uint64]struct{}", "M$map[uint64]*tracker.Progress", "F$tracker.Progress")

//@ -- ------------------------------------------------------------------------------------------
//@ -- the mutating helpers work on the copy (cfg, trk). work_ok: what they need and keep; helper_frame: they write nothing but the
//@ -- four id sets of cfg, the progress map trk, cfg's own fields and (where listed) one progress record

//@ pred work_ok(cfg *tracker.Config, trk tracker.ProgressMap) := cfg != nil && trk != nil && cfg.Voters[0] != nil && progress_values_nonnil(trk)
//@     && (cfg.Voters[0] != cfg.Voters[1]) && (cfg.Voters[0] != cfg.Learners) && (cfg.Voters[0] != cfg.LearnersNext)
//@     && (cfg.Voters[1] != cfg.Learners || cfg.Learners == nil) && (cfg.Voters[1] != cfg.LearnersNext || cfg.LearnersNext == nil)
//@     && (cfg.Learners != cfg.LearnersNext || cfg.Learners == nil)
//@     && (forall id uint64 :: has(trk, id) <==> has(cfg.Voters[0], id) || has(cfg.Voters[1], id) || has(cfg.Learners, id) || has(cfg.LearnersNext, id))
//@ pred memberP(cfg *tracker.Config, id uint64) := has(cfg.Voters[0], id) || has(cfg.Voters[1], id) || has(cfg.Learners, id) || has(cfg.LearnersNext, id)
//@ pred others_kept(cfg *tracker.Config, trk tracker.ProgressMap, id uint64) := (forall k uint64 :: k != id ==> has(cfg.Voters[0], k) == old(has(cfg.Voters[0], k))
//@        && has(cfg.Learners, k) == old(has(cfg.Learners, k)) && has(cfg.LearnersNext, k) == old(has(cfg.LearnersNext, k)) && has(trk, k) == old(has(trk, k)) && trk[k] == old(trk[k]))
//@     && (forall k uint64 :: has(cfg.Voters[1], k) == old(has(cfg.Voters[1], k))) && cfg.Voters[0] == old(cfg.Voters[0]) && cfg.Voters[1] == old(cfg.Voters[1]) && cfg.AutoLeave == old(cfg.AutoLeave)
//@ pred helper_frame(cfg *tracker.Config, trk tracker.ProgressMap) := frameexcept("M$map[uint64]struct{}", old(cfg.Voters[0]), old(cfg.Learners), old(cfg.LearnersNext))
//@     && frameexcept("M$map[uint64]*tracker.Progress", trk)

//@ func confchange.Changer.remove [C13 C14]
//@   frame elems quorum.MajorityConfig:
//@   requires work_ok(cfg, trk)
//@   frame tracker.Progress:
//@   ensures #removed [C13] old(has(trk, id)) ==> !has(cfg.Voters[0], id) && !has(cfg.Learners, id) && !has(cfg.LearnersNext, id)
//@        && (has(trk, id) <==> has(cfg.Voters[1], id)) && (has(trk, id) ==> trk[id] == old(trk[id]))
//@   ensures #absent-noop [C13] !old(has(trk, id)) ==> !has(trk, id) && has(cfg.Voters[0], id) == old(has(cfg.Voters[0], id)) && has(cfg.Learners, id) == old(has(cfg.Learners, id))
//@        && has(cfg.LearnersNext, id) == old(has(cfg.LearnersNext, id)) && cfg.Learners == old(cfg.Learners) && cfg.LearnersNext == old(cfg.LearnersNext)
//@   ensures #others-kept [C13] others_kept(cfg, trk, id)
//@   ensures #frame [C13] helper_frame(cfg, trk)
//@   ensures #wf work_ok(cfg, trk)

//@ func confchange.Changer.initProgress [C13 C16 C14]
//@   frame elems quorum.MajorityConfig:
//@   requires work_ok(cfg, trk)
//@   requires #absent !has(trk, id)
//@   requires #max-inflight [C14] c.Tracker.MaxInflight >= 1
//@   frame tracker.Progress:
//@   frame tracker.Inflights:
//@   ensures #added [C13] has(trk, id) && trk[id] != nil && fresh(trk[id]) && trk[id].IsLearner == isLearner && trk[id].Match == 0 && trk[id].Next == max(c.LastIndex, 1) + 0
//@        && trk[id].RecentActive && (isLearner ? has(cfg.Learners, id) : has(cfg.Voters[0], id))
//@   ensures #flow-control-limits [C16] fresh(trk[id].Inflights) && trk[id].Inflights.size == c.Tracker.MaxInflight && trk[id].Inflights.maxBytes == c.Tracker.MaxInflightBytes
//@   ensures #initial [C13 C16] progress_initial(trk[id], c)
//@   ensures #others-kept [C13] (forall k uint64 :: k != id ==> has(cfg.Voters[0], k) == old(has(cfg.Voters[0], k)) && has(cfg.Learners, k) == old(has(cfg.Learners, k))
//@        && has(trk, k) == old(has(trk, k)) && trk[k] == old(trk[k]))
//@        && (forall k uint64 :: has(cfg.Voters[1], k) == old(has(cfg.Voters[1], k)) && has(cfg.LearnersNext, k) == old(has(cfg.LearnersNext, k)))
//@        && cfg.Voters[0] == old(cfg.Voters[0]) && cfg.Voters[1] == old(cfg.Voters[1]) && cfg.LearnersNext == old(cfg.LearnersNext) && cfg.AutoLeave == old(cfg.AutoLeave)
//@        && (isLearner ? has(cfg.Voters[0], id) == old(has(cfg.Voters[0], id)) : has(cfg.Learners, id) == old(has(cfg.Learners, id)) && cfg.Learners == old(cfg.Learners))
//@   ensures #frame [C13] helper_frame(cfg, trk)
//@   ensures #wf work_ok(cfg, trk)

//@ func confchange.Changer.makeVoter [C13 C14]
//@   frame elems quorum.MajorityConfig:
//@   requires work_ok(cfg, trk)
//@   requires #max-inflight [C14] c.Tracker.MaxInflight >= 1
//@   frame tracker.Progress: trk[id]
//@   frame tracker.Inflights:
//@   ensures #voter [C13] has(trk, id) && has(cfg.Voters[0], id) && !has(cfg.Learners, id) && !has(cfg.LearnersNext, id) && !trk[id].IsLearner
//@        && (old(has(trk, id)) ==> trk[id] == old(trk[id]))
//@   ensures #new-record-fresh [C13] !old(has(trk, id)) ==> fresh(trk[id])
//@   ensures #core-kept [C13 C16] old(has(trk, id)) ==> core_same(trk[id])
//@   ensures #new-record-initial [C13 C16] !old(has(trk, id)) ==> progress_initial(trk[id], c)
//@   ensures #others-kept [C13] others_kept(cfg, trk, id)
//@   ensures #frame [C13] helper_frame(cfg, trk)
//@   ensures #wf work_ok(cfg, trk)

//@ func confchange.Changer.makeLearner [C13 C14]
//@   frame elems quorum.MajorityConfig:
//@   requires work_ok(cfg, trk)
//@   requires #max-inflight [C14] c.Tracker.MaxInflight >= 1
//@   frame tracker.Progress: trk[id]
//@   frame tracker.Inflights:
//@   -- a voter of the outgoing configuration is only staged (LearnersNext) and becomes a learner when the joint state is left
//@   ensures #learner-or-staged [C13] has(trk, id) && (old(has(trk, id)) ==> trk[id] == old(trk[id]))
//@        && (!old(has(trk, id) && trk[id].IsLearner) ==> !has(cfg.Voters[0], id) && (has(cfg.Learners, id) || has(cfg.LearnersNext, id)))
//@   ensures #already-learner-noop [C13] old(has(trk, id) && trk[id].IsLearner) ==> has(cfg.Voters[0], id) == old(has(cfg.Voters[0], id)) && has(cfg.Learners, id) == old(has(cfg.Learners, id))
//@        && has(cfg.LearnersNext, id) == old(has(cfg.LearnersNext, id)) && cfg.Learners == old(cfg.Learners) && cfg.LearnersNext == old(cfg.LearnersNext)
//@   ensures #new-record-fresh [C13] !old(has(trk, id)) ==> fresh(trk[id])
//@   ensures #core-kept [C13 C16] old(has(trk, id)) ==> core_same(trk[id])
//@   ensures #new-record-initial [C13 C16] !old(has(trk, id)) ==> progress_initial(trk[id], c)
//@   ensures #others-kept [C13] others_kept(cfg, trk, id)
//@   ensures #frame [C13] helper_frame(cfg, trk)
//@   ensures #wf work_ok(cfg, trk)

//@ -- progress records keep their key: a record in the map is either the one that was there at entry or one allocated since
//@ pred records_stay(trk tracker.ProgressMap) := forall k uint64 :: has(trk, k) ==> fresh(trk[k]) || (old(has(trk, k)) && trk[k] == old(trk[k]))
//@ -- only records that were in the map at entry (or are new) are written, and only their IsLearner flag
//@ pred progress_frame(trk tracker.ProgressMap) := forall o *tracker.Progress :: {o.IsLearner} wasallocated(o) && (forall k uint64 :: old(has(trk, k)) ==> old(trk[k]) != o)
//@        ==> o.IsLearner == old(o.IsLearner)
//@ pred progress_core_kept() := forall o *tracker.Progress :: {o.Match} wasallocated(o) ==> core_same(o)

//@ func confchange.Changer.apply [C13 C14]
//@   requires work_ok(cfg, trk)
//@   requires #max-inflight [C14] c.Tracker.MaxInflight >= 1
//@   frame tracker.Inflights:
//@   ensures #a-voter-remains [C13] result == nil ==> len(cfg.Voters[0]) > 0
//@   ensures #outgoing-kept [C13] (forall k uint64 :: has(cfg.Voters[1], k) == old(has(cfg.Voters[1], k))) && cfg.Voters[0] == old(cfg.Voters[0]) && cfg.Voters[1] == old(cfg.Voters[1]) && cfg.AutoLeave == old(cfg.AutoLeave)
//@   requires #records-distinct records_distinct(trk)
//@   ensures #records [C13] records_stay(trk) && progress_frame(trk) && progress_core_kept()
//@   ensures #records-initial [C13 C16] forall k uint64 :: has(trk, k) && fresh(trk[k]) ==> progress_initial(trk[k], c)
//@   ensures #records-distinct [C13] records_distinct(trk)
//@   ensures #frame [C13] helper_frame(cfg, trk)
//@   ensures #wf work_ok(cfg, trk)
//@   loop 1 invariant #state 0 <= iter && iter <= len(ccs) && work_ok(cfg, trk) && (forall k uint64 :: has(cfg.Voters[1], k) == old(has(cfg.Voters[1], k)))
//@        && cfg.Voters[0] == old(cfg.Voters[0]) && cfg.Voters[1] == old(cfg.Voters[1]) && cfg.AutoLeave == old(cfg.AutoLeave)
//@   loop 1 invariant #records-stay records_stay(trk)
//@   loop 1 invariant #records-frame progress_frame(trk)
//@   loop 1 invariant #records-core progress_core_kept()
//@   loop 1 invariant #records-initial forall k uint64 :: has(trk, k) && fresh(trk[k]) ==> progress_initial(trk[k], c)
//@   loop 1 invariant #records-distinct records_distinct(trk)
//@   loop 1 invariant #frame frameexcept("M$map[uint64]struct{}", old(cfg.Voters[0]), old(cfg.Learners), old(cfg.LearnersNext)) && frameexcept("M$map[uint64]*tracker.Progress", trk)
//@        && frameexcept("F$tracker.Inflights")

//@ -- size of the symmetric difference of two id sets, in counting form
//@ spec symdiffSpec(l quorum.MajorityConfig, r quorum.MajorityConfig) int := cnt(l, id :: !has(r, id)) + cnt(r, id :: !has(l, id))
//@ -- ASSUMED (listed in the evidence): the two nested loops over a pair of array-typed literals are outside what the loop-invariant
//@ -- language expresses conveniently; the count form is what Simple relies on
//@ func confchange.symdiff [C13]
//@   trusted
//@   pure
//@   ensures #counts [C13] result == symdiffSpec(l, r)
//@   ensures #witness-form [C13] result <= 1 ==> (forall a uint64, b uint64 :: (has(l, a) != has(r, a)) && (has(l, b) != has(r, b)) ==> a == b)

//@ -- ------------------------------------------------------------------------------------------
//@ -- the three operations. valid_input: what the Changer must be given (a configuration that satisfies the invariants, as produced
//@ -- by MakeProgressTracker / a previous operation); cfg_result: what every accepted operation returns (C13)

//@ pred valid_input(c Changer) := c.Tracker.Voters[0] != nil && c.Tracker.Progress != nil && progress_values_nonnil(c.Tracker.Progress) && c.Tracker.MaxInflight >= 1
//@     && (forall id uint64 :: has(c.Tracker.Progress, id) ==> has(c.Tracker.Voters[0], id) || has(c.Tracker.Voters[1], id) || has(c.Tracker.Learners, id) || has(c.Tracker.LearnersNext, id))
//@ pred input_untouched() := allocframe("M$map[uint64]struct{}", "M$map[uint64]*tracker.Progress", "F$tracker.Progress", "F$tracker.Inflights")
//@ pred cfg_result(cfg tracker.Config, trk tracker.ProgressMap) := cfg_inv(cfg, trk) && trk_only_members(cfg, trk) && trk != nil && progress_values_nonnil(trk) && cfg.Voters[0] != nil

//@ pred record_ok(p *tracker.Progress, c Changer, k uint64) := p != nil && fresh(p) && ((has(c.Tracker.Progress, k) && progress_carried(p, c.Tracker.Progress[k])) || progress_initial(p, c))
//@ pred records_result(trk tracker.ProgressMap, c Changer) := (forall k uint64 :: {has(trk, k)} has(trk, k) ==> record_ok(trk[k], c, k)) && records_distinct(trk)
//@ pred differs(a quorum.MajorityConfig, b quorum.MajorityConfig, id uint64) := has(a, id) != has(b, id)
//@ func confchange.Changer.Simple [C13 C14]
//@   requires #valid-input [C14] valid_input(c)
//@   -- symdiff <= 1 in witness form: any two ids on which the old and the new incoming voter sets disagree are the same id
//@   ensures #at-most-one-voter-changed [C13] result2 == nil ==> (forall a uint64, b uint64 :: differs(c.Tracker.Voters[0], result0.Voters[0], a) && differs(c.Tracker.Voters[0], result0.Voters[0], b) ==> a == b)
//@   ensures #invariants [C13] result2 == nil ==> cfg_result(result0, result1)
//@   ensures #records-carried-or-initial [C13 C16] result2 == nil ==> records_result(result1, c)
//@   ensures #a-voter-remains [C13] result2 == nil ==> len(result0.Voters[0]) > 0
//@   ensures #stays-simple [C13] result2 == nil ==> len(result0.Voters[1]) == 0
//@   ensures #rejected-empty [C13] result2 != nil ==> len(result1) == 0 && result0.Voters[0] == nil && result0.Voters[1] == nil && result0.Learners == nil && result0.LearnersNext == nil
//@   ensures #input-sets-untouched [C13] allocframe("M$map[uint64]struct{}")
//@   ensures #input-progress-map-untouched [C13] allocframe("M$map[uint64]*tracker.Progress")
//@   ensures #input-records-untouched [C13] allocframe("F$tracker.Progress")
//@   ensures #input-inflights-untouched [C13] allocframe("F$tracker.Inflights")

//@ func confchange.Changer.EnterJoint [C13 C14]
//@   requires #valid-input [C14] valid_input(c)
//@   frame elems quorum.MajorityConfig:
//@   ensures #invariants [C13] result2 == nil ==> cfg_result(result0, result1)
//@   ensures #records-carried-or-initial [C13 C16] result2 == nil ==> records_result(result1, c)
//@   ensures #a-voter-remains [C13] result2 == nil ==> len(result0.Voters[0]) > 0
//@   ensures #joint [C13] result2 == nil ==> len(result0.Voters[1]) > 0 && sameSet(result0.Voters[1], c.Tracker.Voters[0]) && result0.AutoLeave == autoLeave
//@   ensures #only-from-simple [C13] result2 == nil ==> len(c.Tracker.Voters[1]) == 0
//@   ensures #rejected-empty [C13] result2 != nil ==> len(result1) == 0 && result0.Voters[0] == nil && result0.Voters[1] == nil && result0.Learners == nil && result0.LearnersNext == nil
//@   ensures #input-sets-untouched [C13] allocframe("M$map[uint64]struct{}")
//@   ensures #input-progress-map-untouched [C13] allocframe("M$map[uint64]*tracker.Progress")
//@   ensures #input-records-untouched [C13] allocframe("F$tracker.Progress")
//@   ensures #input-inflights-untouched [C13] allocframe("F$tracker.Inflights")
//@   loop 1 invariant #copying cfg.Voters[1] != nil && fresh(cfg.Voters[1]) && len(cfg.Voters[1]) == iter && (forall id uint64 :: has(cfg.Voters[1], id) <==> seen(id))
//@        && cfg.Voters[0] != nil && fresh(cfg.Voters[0]) && cfg.Voters[0] != cfg.Voters[1] && (cfg.Learners == nil || fresh(cfg.Learners)) && (cfg.LearnersNext == nil || fresh(cfg.LearnersNext))
//@        && cfg.Voters[1] != cfg.Learners && cfg.Voters[1] != cfg.LearnersNext
//@   loop 1 invariant #rest sameSet(cfg.Voters[0], c.Tracker.Voters[0]) && sameSet(cfg.Learners, c.Tracker.Learners) && sameSet(cfg.LearnersNext, c.Tracker.LearnersNext) && !cfg.AutoLeave
//@        && len(c.Tracker.Voters[1]) == 0 && len(cfg.Voters[0]) > 0
//@        && (cfg.Voters[0] != cfg.Learners || cfg.Learners == nil) && (cfg.Voters[0] != cfg.LearnersNext || cfg.LearnersNext == nil) && (cfg.Learners != cfg.LearnersNext || cfg.Learners == nil)
//@   loop 1 invariant #trk trk != nil && fresh(trk) && progress_values_nonnil(trk) && (forall id uint64 :: has(trk, id) == has(c.Tracker.Progress, id))
//@        && (forall id uint64 :: has(trk, id) ==> fresh(trk[id]))
//@        && (forall id uint64 :: has(trk, id) <==> has(cfg.Voters[0], id) || has(cfg.Learners, id) || has(cfg.LearnersNext, id))
//@   loop 1 invariant #records records_result(trk, c) && (forall id uint64 :: has(trk, id) ==> progress_carried(trk[id], c.Tracker.Progress[id]))
//@   loop 1 invariant #input-untouched allocframe("M$map[uint64]struct{}", "M$map[uint64]*tracker.Progress", "F$tracker.Progress", "F$tracker.Inflights")

//@ func confchange.Changer.LeaveJoint [C13 C14]
//@   requires #valid-input [C14] valid_input(c)
//@   requires #has-voter [C14] len(c.Tracker.Voters[0]) > 0
//@   frame elems quorum.MajorityConfig:
//@   ensures #invariants [C13] result2 == nil ==> cfg_result(result0, result1)
//@   ensures #records-carried-or-initial [C13 C16] result2 == nil ==> records_result(result1, c)
//@   ensures #a-voter-remains [C13] result2 == nil ==> len(result0.Voters[0]) > 0 && sameSet(result0.Voters[0], c.Tracker.Voters[0])
//@   ensures #left [C13] result2 == nil ==> result0.Voters[1] == nil && result0.LearnersNext == nil && !result0.AutoLeave && len(c.Tracker.Voters[1]) > 0
//@   -- the staged learners become learners (and are marked), everything that is neither a voter nor a learner any more loses its record
//@   ensures #staged-become-learners [C13] result2 == nil ==> (forall id uint64 :: has(result0.Learners, id) <==> has(c.Tracker.Learners, id) || has(c.Tracker.LearnersNext, id))
//@   ensures #rejected-empty [C13] result2 != nil ==> len(result1) == 0 && result0.Voters[0] == nil && result0.Voters[1] == nil && result0.Learners == nil && result0.LearnersNext == nil
//@   ensures #input-sets-untouched [C13] allocframe("M$map[uint64]struct{}")
//@   ensures #input-progress-map-untouched [C13] allocframe("M$map[uint64]*tracker.Progress")
//@   ensures #input-records-untouched [C13] allocframe("F$tracker.Progress")
//@   ensures #input-inflights-untouched [C13] allocframe("F$tracker.Inflights")
//@   loop 1 invariant #sets cfg.Voters[0] != nil && fresh(cfg.Voters[0]) && cfg.Voters[1] != nil && fresh(cfg.Voters[1]) && (cfg.LearnersNext == nil || fresh(cfg.LearnersNext))
//@        && (cfg.Learners == nil || fresh(cfg.Learners)) && cfg.Voters[0] != cfg.Voters[1] && cfg.Voters[0] != cfg.Learners && cfg.Voters[0] != cfg.LearnersNext
//@        && cfg.Voters[1] != cfg.Learners && cfg.Voters[1] != cfg.LearnersNext && (cfg.Learners != cfg.LearnersNext || cfg.Learners == nil)
//@        && sameSet(cfg.Voters[0], c.Tracker.Voters[0]) && sameSet(cfg.Voters[1], c.Tracker.Voters[1]) && sameSet(cfg.LearnersNext, c.Tracker.LearnersNext)
//@   loop 1 invariant #moved forall id uint64 :: has(cfg.Learners, id) <==> has(c.Tracker.Learners, id) || seen(id)
//@   loop 1 invariant #marked forall id uint64 :: has(cfg.Learners, id) ==> has(trk, id) && trk[id].IsLearner
//@   loop 1 invariant #records records_result(trk, c)
//@   loop 1 invariant #trk trk != nil && fresh(trk) && progress_values_nonnil(trk) && (forall id uint64 :: has(trk, id) == has(c.Tracker.Progress, id)) && (forall id uint64 :: has(trk, id) ==> fresh(trk[id]))
//@        && (forall id uint64 :: has(trk, id) <==> has(cfg.Voters[0], id) || has(cfg.Voters[1], id) || has(cfg.Learners, id) || has(cfg.LearnersNext, id))
//@        && (forall id uint64 :: has(cfg.LearnersNext, id) ==> has(cfg.Voters[1], id))
//@   loop 1 invariant #input-untouched allocframe("M$map[uint64]struct{}", "M$map[uint64]*tracker.Progress", "F$tracker.Progress", "F$tracker.Inflights")
//@   loop 2 invariant #sets cfg.Voters[0] != nil && cfg.Voters[1] != nil && cfg.LearnersNext == nil && sameSet(cfg.Voters[0], c.Tracker.Voters[0]) && sameSet(cfg.Voters[1], c.Tracker.Voters[1])
//@        && (forall id uint64 :: has(cfg.Learners, id) <==> has(c.Tracker.Learners, id) || has(c.Tracker.LearnersNext, id))
//@   loop 2 invariant #marked forall id uint64 :: has(cfg.Learners, id) ==> has(trk, id) && trk[id].IsLearner
//@   loop 2 invariant #records records_result(trk, c)
//@   loop 2 invariant #trk trk != nil && fresh(trk) && progress_values_nonnil(trk)
//@        && (forall id uint64 :: has(trk, id) ==> has(cfg.Voters[0], id) || has(cfg.Learners, id) || (has(cfg.Voters[1], id) && !seen(id)))
//@        && (forall id uint64 :: has(cfg.Voters[0], id) || has(cfg.Learners, id) ==> has(trk, id))
//@   loop 2 invariant #input-untouched allocframe("M$map[uint64]struct{}", "M$map[uint64]*tracker.Progress", "F$tracker.Progress", "F$tracker.Inflights")
