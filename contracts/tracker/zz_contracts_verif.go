//go:build verif

// Contracts for package tracker (comment-only; read by /verif/govc). See /verif/DESIGN.md.

package tracker

//@ pred wf_inflights(in *Inflights) := in != nil && in.size >= 1 && 0 <= in.count && in.count <= in.size && 0 <= in.start
//@     && in.start < in.size && len(in.buffer) <= in.size
//@     && (len(in.buffer) < in.size ==> in.start + in.count <= len(in.buffer))
//@     && (in.count > 0 ==> in.start < len(in.buffer))

//@ pred fullSpec(in *Inflights) := in.count == in.size || (in.maxBytes != 0 && in.bytes >= in.maxBytes)

//@ func tracker.Inflights.Full [C16]
//@   pure
//@   requires in != nil
//@   ensures #def result <==> fullSpec(in)

//@ func tracker.Inflights.Count [C16]
//@   pure
//@   requires in != nil
//@   ensures result == in.count

//@ func tracker.Inflights.reset [C16]
//@   requires wf_inflights(in)
//@   ensures #emptied in.count == 0 && in.bytes == 0 && in.start == 0 && wf_inflights(in)
//@   ensures #frame in.size == old(in.size) && in.maxBytes == old(in.maxBytes)
