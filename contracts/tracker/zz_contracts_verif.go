//go:build verif

// Contracts for package tracker (comment-only; read by /verif/govc). See /verif/DESIGN.md.

package tracker

//@ -- ------------------------------------------------------------------------------------------
//@ -- Inflights: ring buffer of (index, bytes); logical queue q[0..count) with q[j] = buffer[ring(start, j, size)]

//@ spec ring(a int, j int, size int) int := a + j >= size ? a + j - size : a + j

//@ pred wf_inflights(in *Inflights) := in != nil && in.size >= 1 && 0 <= in.count && in.count <= in.size && 0 <= in.start
//@     && in.start < in.size && len(in.buffer) <= in.size
//@     && (len(in.buffer) < in.size ==> in.start + in.count <= len(in.buffer))
//@     && (in.count > 0 ==> in.start < len(in.buffer))

//@ spec qidx(in *Inflights, j int) uint64 := in.buffer[ring(in.start, j, in.size)].index
//@ spec qbytes(in *Inflights, j int) uint64 := in.buffer[ring(in.start, j, in.size)].bytes

//@ pred fullSpec(in *Inflights) := in.count == in.size || (in.maxBytes != 0 && in.bytes >= in.maxBytes)

//@ func tracker.NewInflights [C16]
//@   requires size >= 1
//@   ensures #fresh fresh(result) && wf_inflights(result) && result.count == 0 && result.bytes == 0
//@   ensures #limits result.size == size && result.maxBytes == maxBytes

//@ func tracker.Inflights.Full [C16]
//@   pure
//@   requires in != nil
//@   ensures #def result <==> fullSpec(in)

//@ func tracker.Inflights.Count [C16]
//@   pure
//@   requires in != nil
//@   ensures result == in.count

//@ func tracker.Inflights.reset [C16]
//@   requires wf_inflights(in)
//@   ensures #emptied in.count == 0 && in.bytes == 0 && in.start == 0 && wf_inflights(in)
//@   ensures #frame in.size == old(in.size) && in.maxBytes == old(in.maxBytes)

//@ func tracker.Inflights.grow [C16]
//@   requires wf_inflights(in) && len(in.buffer) < in.size
//@   ensures #bigger len(in.buffer) > old(len(in.buffer)) && len(in.buffer) <= in.size
//@   ensures #kept forall j int :: 0 <= j && j < old(len(in.buffer)) ==>
//@             in.buffer[j].index == old(in.buffer[j].index) && in.buffer[j].bytes == old(in.buffer[j].bytes)
//@   ensures #frame in.size == old(in.size) && in.maxBytes == old(in.maxBytes) && in.count == old(in.count)
//@             && in.start == old(in.start) && in.bytes == old(in.bytes)

//@ func tracker.Inflights.Add [C16]
//@   requires #wf wf_inflights(in)
//@   requires #not-full [C16 C14] !fullSpec(in)
//@   ensures #wf wf_inflights(in)
//@   ensures #enqueued [C16] in.count == old(in.count) + 1 && in.start == old(in.start)
//@             && qidx(in, old(in.count)) == index && qbytes(in, old(in.count)) == bytes
//@   ensures #queue-kept [C16] forall j int :: 0 <= j && j < old(in.count) ==> qidx(in, j) == old(qidx(in, j)) && qbytes(in, j) == old(qbytes(in, j))
//@   ensures #one-over [C16] old(in.maxBytes) != 0 ==> old(in.bytes) < in.maxBytes
//@   ensures #count-bound [C16] in.count <= in.size
//@   ensures #frame in.size == old(in.size) && in.maxBytes == old(in.maxBytes)
//@   ensures #bytes [C16] in.bytes == old(in.bytes) + bytes || in.bytes == old(in.bytes) + bytes - 18446744073709551616

//@ func tracker.Inflights.FreeLE [C16]
//@   requires #wf wf_inflights(in)
//@   ensures #wf wf_inflights(in)
//@   ensures #frame in.size == old(in.size) && in.maxBytes == old(in.maxBytes)
//@   ensures #prefix-freed [C16] in.count <= old(in.count)
//@             && (forall j int :: 0 <= j && j < old(in.count) - in.count ==> old(qidx(in, j)) <= to)
//@             && (forall k int :: k == old(in.count) - in.count && in.count > 0 ==> old(qidx(in, k)) > to)
//@   ensures #queue-shifted [C16] forall j int, k int :: 0 <= j && j < in.count && k == j + (old(in.count) - in.count) ==>
//@             qidx(in, j) == old(qidx(in, k)) && qbytes(in, j) == old(qbytes(in, k))
//@   loop 1 invariant #range 0 <= i && i <= in.count && idx == ring(in.start, i, in.size)
//@   loop 1 invariant #state in.count == old(in.count) && in.start == old(in.start) && in.size == old(in.size) && in.bytes == old(in.bytes) && in.maxBytes == old(in.maxBytes)
//@   loop 1 invariant #buffer in.buffer == old(in.buffer)
//@   loop 1 invariant #freed forall j int :: 0 <= j && j < i ==> qidx(in, j) <= to
//@   loop 1 decreases in.count - i
