//go:build verif

// Contracts for package tracker (comment-only; read by /verif/govc). See /verif/DESIGN.md.

package tracker

//@ -- ------------------------------------------------------------------------------------------
//@ -- Inflights: ring buffer of (index, bytes); logical queue q[0..count) with q[j] = buffer[ring(start, j, size)]

//@ spec ring(a int, j int, size int) int := a + j >= size ? a + j - size : a + j

//@ pred wf_inflights(in *Inflights) := in != nil && in.size >= 1 && 0 <= in.count && in.count <= in.size && 0 <= in.start
//@     && in.start < in.size && len(in.buffer) <= in.size
//@     && (len(in.buffer) < in.size ==> in.start + in.count <= len(in.buffer))
//@     && (in.count > 0 ==> in.start < len(in.buffer))

//@ spec qidx(in *Inflights, j int) uint64 := in.buffer[ring(in.start, j, in.size)].index
//@ spec qbytes(in *Inflights, j int) uint64 := in.buffer[ring(in.start, j, in.size)].bytes

//@ pred fullSpec(in *Inflights) := in.count == in.size || (in.maxBytes != 0 && in.bytes >= in.maxBytes)

//@ func tracker.NewInflights [C16]
//@   requires size >= 1
//@   ensures #fresh fresh(result) && wf_inflights(result) && result.count == 0 && result.bytes == 0
//@   ensures #limits result.size == size && result.maxBytes == maxBytes

//@ func tracker.Inflights.Full [C16]
//@   pure
//@   requires in != nil
//@   ensures #def result <==> fullSpec(in)

//@ func tracker.Inflights.Count [C16]
//@   pure
//@   requires in != nil
//@   ensures result == in.count

//@ func tracker.Inflights.reset [C16]
//@   requires wf_inflights(in)
//@   frame tracker.Inflights: in
//@   ensures #emptied in.count == 0 && in.bytes == 0 && in.start == 0 && wf_inflights(in)
//@   ensures #frame in.size == old(in.size) && in.maxBytes == old(in.maxBytes)

//@ func tracker.Inflights.grow [C16]
//@   requires wf_inflights(in) && len(in.buffer) < in.size
//@   frame tracker.Inflights: in
//@   ensures #bigger len(in.buffer) > old(len(in.buffer)) && len(in.buffer) <= in.size && fresh(in.buffer)
//@   ensures #kept forall j int :: 0 <= j && j < old(len(in.buffer)) ==>
//@             in.buffer[j].index == old(in.buffer[j].index) && in.buffer[j].bytes == old(in.buffer[j].bytes)
//@   ensures #frame in.size == old(in.size) && in.maxBytes == old(in.maxBytes) && in.count == old(in.count)
//@             && in.start == old(in.start) && in.bytes == old(in.bytes)

//@ func tracker.Inflights.Add [C16]
//@   requires #wf wf_inflights(in)
//@   requires #not-full [C16 C14] !fullSpec(in)
//@   frame tracker.Inflights: in
//@   frame elems tracker.inflight: in.buffer
//@   ensures #wf wf_inflights(in)
//@   ensures #enqueued [C16] in.count == old(in.count) + 1 && in.start == old(in.start)
//@             && qidx(in, old(in.count)) == index && qbytes(in, old(in.count)) == bytes
//@   ensures #queue-kept [C16] forall j int :: 0 <= j && j < old(in.count) ==> qidx(in, j) == old(qidx(in, j)) && qbytes(in, j) == old(qbytes(in, j))
//@   ensures #one-over [C16] old(in.maxBytes) != 0 ==> old(in.bytes) < in.maxBytes
//@   ensures #count-bound [C16] in.count <= in.size
//@   ensures #frame in.size == old(in.size) && in.maxBytes == old(in.maxBytes)
//@   ensures #bytes [C16] in.bytes == old(in.bytes) + bytes || in.bytes == old(in.bytes) + bytes - 18446744073709551616

//@ func tracker.Inflights.FreeLE [C16]
//@   requires #wf wf_inflights(in)
//@   frame tracker.Inflights: in
//@   ensures #wf wf_inflights(in)
//@   ensures #frame in.size == old(in.size) && in.maxBytes == old(in.maxBytes)
//@   ensures #prefix-freed [C16] in.count <= old(in.count)
//@             && (forall j int :: 0 <= j && j < old(in.count) - in.count ==> old(qidx(in, j)) <= to)
//@             && (forall k int :: k == old(in.count) - in.count && in.count > 0 ==> old(qidx(in, k)) > to)
//@   ensures #queue-shifted [C16] forall j int, k int :: 0 <= j && j < in.count && k == j + (old(in.count) - in.count) ==>
//@             qidx(in, j) == old(qidx(in, k)) && qbytes(in, j) == old(qbytes(in, k))
//@   loop 1 invariant #range 0 <= i && i <= in.count && idx == ring(in.start, i, in.size)
//@   loop 1 invariant #state in.count == old(in.count) && in.start == old(in.start) && in.size == old(in.size) && in.bytes == old(in.bytes) && in.maxBytes == old(in.maxBytes)
//@   loop 1 invariant #buffer in.buffer == old(in.buffer)
//@   loop 1 invariant #freed forall j int :: 0 <= j && j < i ==> qidx(in, j) <= to
//@   loop 1 decreases in.count - i

//@ -- ------------------------------------------------------------------------------------------
//@ -- Progress

//@ pred wf_progress(pr *Progress) := pr != nil && wf_inflights(pr.Inflights) && pr.Match < pr.Next && pr.State <= 2
//@ pred progress_untouched_but_flow(pr *Progress) := pr.Match == old(pr.Match) && pr.IsLearner == old(pr.IsLearner) && pr.RecentActive == old(pr.RecentActive) && pr.Inflights == old(pr.Inflights)

//@ func tracker.Progress.ResetState [C16 C09]
//@   requires wf_progress(pr)
//@   frame tracker.Progress: pr
//@   frame tracker.Inflights: pr.Inflights
//@   ensures #state pr.State == state && !pr.MsgAppFlowPaused && pr.PendingSnapshot == 0
//@   ensures #inflights-emptied [C16] pr.Inflights.count == 0 && pr.Inflights.bytes == 0 && wf_inflights(pr.Inflights)
//@   ensures #kept pr.Match == old(pr.Match) && pr.Next == old(pr.Next) && pr.sentCommit == old(pr.sentCommit) && progress_untouched_but_flow(pr)

//@ func tracker.Progress.BecomeProbe [C16 C09]
//@   requires wf_progress(pr) && pr.Match < 18446744073709551615 && pr.PendingSnapshot < 18446744073709551615
//@   frame tracker.Progress: pr
//@   frame tracker.Inflights: pr.Inflights
//@   ensures #probe [C09] pr.State == StateProbe && !pr.MsgAppFlowPaused && pr.PendingSnapshot == 0
//@   ensures #next [C09] pr.Next == (old(pr.State) == StateSnapshot ? max(pr.Match + 1, old(pr.PendingSnapshot) + 1) : pr.Match + 1)
//@   ensures #sent-commit pr.sentCommit == min(old(pr.sentCommit), pr.Next - 1)
//@   ensures #wf wf_progress(pr) && progress_untouched_but_flow(pr) && pr.Inflights.count == 0

//@ func tracker.Progress.BecomeReplicate [C16]
//@   requires wf_progress(pr) && pr.Match < 18446744073709551615
//@   frame tracker.Progress: pr
//@   frame tracker.Inflights: pr.Inflights
//@   ensures #replicate pr.State == StateReplicate && pr.Next == pr.Match + 1 && !pr.MsgAppFlowPaused && pr.PendingSnapshot == 0
//@   ensures #wf wf_progress(pr) && progress_untouched_but_flow(pr) && pr.sentCommit == old(pr.sentCommit) && pr.Inflights.count == 0

//@ func tracker.Progress.BecomeSnapshot [C16 C09]
//@   requires #wf wf_progress(pr)
//@   requires #not-behind-match snapshoti >= pr.Match
//@   requires #a-arith snapshoti < 18446744073709551615
//@   frame tracker.Progress: pr
//@   frame tracker.Inflights: pr.Inflights
//@   ensures #snapshot [C09 C16] pr.State == StateSnapshot && pr.PendingSnapshot == snapshoti && pr.Next == snapshoti + 1 && pr.sentCommit == snapshoti
//@   ensures #wf wf_progress(pr) && progress_untouched_but_flow(pr) && pr.Inflights.count == 0 && !pr.MsgAppFlowPaused

//@ func tracker.Progress.SentEntries [C16 C14]
//@   requires #wf wf_progress(pr)
//@   requires #state [C14] pr.State != StateSnapshot
//@   requires #not-full [C16 C14] pr.State == StateReplicate && entries > 0 ==> !fullSpec(pr.Inflights)
//@   requires #no-wrap pr.Next + entries <= 18446744073709551615
//@   frame tracker.Progress: pr
//@   frame tracker.Inflights: pr.Inflights
//@   ensures #replicate [C16] old(pr.State) == StateReplicate ==> pr.MsgAppFlowPaused == fullSpec(pr.Inflights)
//@        && (entries > 0 ==> pr.Next == old(pr.Next) + entries && pr.Inflights.count == old(pr.Inflights.count) + 1
//@                           && qidx(pr.Inflights, old(pr.Inflights.count)) == pr.Next - 1 && qbytes(pr.Inflights, old(pr.Inflights.count)) == bytes)
//@        && (entries <= 0 ==> pr.Next == old(pr.Next) && pr.Inflights.count == old(pr.Inflights.count))
//@   ensures #probe [C16] old(pr.State) == StateProbe ==> pr.Next == old(pr.Next) && pr.MsgAppFlowPaused == (old(pr.MsgAppFlowPaused) || entries > 0)
//@   ensures #wf wf_progress(pr) && progress_untouched_but_flow(pr) && pr.State == old(pr.State) && pr.sentCommit == old(pr.sentCommit) && pr.PendingSnapshot == old(pr.PendingSnapshot)

//@ func tracker.Progress.CanBumpCommit [C06]
//@   pure
//@   requires pr != nil
//@   ensures result <==> (index > pr.sentCommit && (pr.Next >= 1 ? pr.sentCommit < pr.Next - 1 : pr.sentCommit < 18446744073709551615))

//@ func tracker.Progress.SentCommit [C06]
//@   requires pr != nil
//@   frame tracker.Progress: pr
//@   ensures pr.sentCommit == commit && pr.Match == old(pr.Match) && pr.Next == old(pr.Next) && pr.State == old(pr.State)
//@        && pr.PendingSnapshot == old(pr.PendingSnapshot) && pr.MsgAppFlowPaused == old(pr.MsgAppFlowPaused) && progress_untouched_but_flow(pr)

//@ func tracker.Progress.MaybeUpdate [C06 C05]
//@   requires pr != nil && n < 18446744073709551615
//@   frame tracker.Progress: pr
//@   ensures #result [C06] result <==> n > old(pr.Match)
//@   ensures #updated [C06] result ==> pr.Match == n && pr.Next == max(old(pr.Next), n + 1) && !pr.MsgAppFlowPaused
//@   ensures #unchanged [C06] !result ==> pr.Match == old(pr.Match) && pr.Next == old(pr.Next) && pr.MsgAppFlowPaused == old(pr.MsgAppFlowPaused)
//@   ensures #rest pr.State == old(pr.State) && pr.sentCommit == old(pr.sentCommit) && pr.PendingSnapshot == old(pr.PendingSnapshot)
//@        && pr.IsLearner == old(pr.IsLearner) && pr.RecentActive == old(pr.RecentActive) && pr.Inflights == old(pr.Inflights)
//@   ensures #match-monotone [C06] pr.Match >= old(pr.Match) && (old(pr.Match) < old(pr.Next) ==> pr.Match < pr.Next)

//@ func tracker.Progress.MaybeDecrTo [C06]
//@   requires pr != nil && pr.Match < pr.Next && pr.State <= 2 && matchHint < 18446744073709551615
//@   frame tracker.Progress: pr
//@   ensures #match-kept [C06] pr.Match == old(pr.Match) && pr.Match < pr.Next && pr.Next <= old(pr.Next)
//@   ensures #replicate old(pr.State) == StateReplicate ==> (result <==> rejected > pr.Match) && (result ==> pr.Next == pr.Match + 1)
//@   ensures #probe old(pr.State) != StateReplicate ==> (result <==> old(pr.Next) - 1 == rejected)
//@        && (result ==> pr.Next == max(min(rejected, matchHint + 1), pr.Match + 1) && !pr.MsgAppFlowPaused)
//@   ensures #unchanged !result ==> pr.Next == old(pr.Next) && pr.sentCommit == old(pr.sentCommit) && pr.MsgAppFlowPaused == old(pr.MsgAppFlowPaused)
//@   ensures #sent-commit result ==> pr.sentCommit == min(old(pr.sentCommit), pr.Next - 1)
//@   ensures #rest pr.State == old(pr.State) && pr.PendingSnapshot == old(pr.PendingSnapshot) && progress_untouched_but_flow(pr)

//@ func tracker.Progress.IsPaused [C16 C14]
//@   pure
//@   requires #state [C14] pr != nil && pr.State <= 2
//@   ensures #snapshot-paused [C16] pr.State == StateSnapshot ==> result
//@   ensures #flow pr.State != StateSnapshot ==> result == pr.MsgAppFlowPaused

//@ -- ------------------------------------------------------------------------------------------
//@ -- ProgressTracker

//@ spec matchOf(p *ProgressTracker, id uint64) uint64 := has(p.Progress, id) ? p.Progress[id].Match : 0
//@ spec geByMatch(p *ProgressTracker, c quorum.MajorityConfig, v int) int := cnt(c, id :: matchOf(p, id) >= v)
//@ spec gtByMatch(p *ProgressTracker, c quorum.MajorityConfig, v int) int := cnt(c, id :: matchOf(p, id) > v)
//@ -- r is the largest index acknowledged (Progress.Match, missing = 0) by a strict majority of voter set c
//@ pred majCommittedByMatch(p *ProgressTracker, c quorum.MajorityConfig, r int) :=
//@     (r == 0 || geByMatch(p, c, r) >= len(c) / 2 + 1) && gtByMatch(p, c, r) < len(c) / 2 + 1
//@ pred jointCommittedByMatch(p *ProgressTracker, r int) :=
//@     (len(p.Voters[0]) == 0 && len(p.Voters[1]) == 0) ? r == 18446744073709551615
//@   : ((len(p.Voters[0]) > 0 ==> r == 0 || geByMatch(p, p.Voters[0], r) >= len(p.Voters[0]) / 2 + 1)
//@      && (len(p.Voters[1]) > 0 ==> r == 0 || geByMatch(p, p.Voters[1], r) >= len(p.Voters[1]) / 2 + 1)
//@      && ((len(p.Voters[0]) > 0 && gtByMatch(p, p.Voters[0], r) < len(p.Voters[0]) / 2 + 1) || (len(p.Voters[1]) > 0 && gtByMatch(p, p.Voters[1], r) < len(p.Voters[1]) / 2 + 1)))

//@ pred progress_nonnil(p *ProgressTracker) := forall id uint64 :: has(p.Progress, id) ==> p.Progress[id] != nil

//@ func tracker.matchAckIndexer.AckedIndex [C12 C06]
//@   pure
//@   implements quorum.AckedIndexer.AckedIndex
//@   requires has(l, id) ==> l[id] != nil
//@   ensures #match result1 == has(l, id) && result0 == (has(l, id) ? l[id].Match : 0)

//@ func tracker.ProgressTracker.IsSingleton [C11]
//@   pure
//@   requires p != nil
//@   ensures result <==> (len(p.Voters[0]) == 1 && len(p.Voters[1]) == 0)

//@ func tracker.ProgressTracker.ResetVotes [C02]
//@   requires p != nil
//@   frame tracker.ProgressTracker: p
//@   ensures #empty [C02] fresh(p.Votes) && len(p.Votes) == 0 && (forall id uint64 :: !has(p.Votes, id))
//@   ensures #rest p.Progress == old(p.Progress) && p.Voters[0] == old(p.Voters[0]) && p.Voters[1] == old(p.Voters[1])

//@ func tracker.ProgressTracker.RecordVote [C02]
//@   requires p != nil && p.Votes != nil
//@   ensures #first-wins [C02] (old(has(p.Votes, id)) ==> p.Votes[id] == old(p.Votes[id])) && (!old(has(p.Votes, id)) ==> p.Votes[id] == v) && has(p.Votes, id)
//@   ensures #others-kept [C02] forall k uint64 :: k != id ==> has(p.Votes, k) == old(has(p.Votes, k)) && p.Votes[k] == old(p.Votes[k])
//@   ensures #rest p.Votes == old(p.Votes) && p.Progress == old(p.Progress) && p.Voters[0] == old(p.Voters[0]) && p.Voters[1] == old(p.Voters[1])

//@ func tracker.ProgressTracker.Committed [C06 C12]
//@   requires p != nil && progress_nonnil(p)
//@   after quorum.JointConfig.CommittedIndex assume cnt_mono(p.Voters[0], id :: ack(asiface(p.Progress, "tracker.matchAckIndexer"), id) >= result, id :: matchOf(p, id) >= result)
//@        && cnt_mono(p.Voters[1], id :: ack(asiface(p.Progress, "tracker.matchAckIndexer"), id) >= result, id :: matchOf(p, id) >= result)
//@        && cnt_mono(p.Voters[0], id :: matchOf(p, id) > result, id :: ack(asiface(p.Progress, "tracker.matchAckIndexer"), id) > result)
//@        && cnt_mono(p.Voters[1], id :: matchOf(p, id) > result, id :: ack(asiface(p.Progress, "tracker.matchAckIndexer"), id) > result)
//@   ensures #quorum-index [C06 C12] jointCommittedByMatch(p, result)

//@ func tracker.ProgressTracker.TallyVotes [C02 C12 C19]
//@   pure
//@   requires p != nil && progress_nonnil(p)
//@   ensures #result [C02 C12] result2 == jointVoteSpec(p.Voters, p.Votes)
//@   ensures #counts-order-free [C19] granted == cnt(p.Progress, id :: !p.Progress[id].IsLearner && has(p.Votes, id) && p.Votes[id])
//@        && rejected == cnt(p.Progress, id :: !p.Progress[id].IsLearner && has(p.Votes, id) && !p.Votes[id])
//@   loop 1 invariant #counts granted == cntsofar(id :: !p.Progress[id].IsLearner && has(p.Votes, id) && p.Votes[id])
//@        && rejected == cntsofar(id :: !p.Progress[id].IsLearner && has(p.Votes, id) && !p.Votes[id])
//@   loop 1 invariant #range 0 <= granted && 0 <= rejected && granted + rejected <= iter

//@ func tracker.MakeProgressTracker [C13]
//@   ensures #empty len(result.Voters[0]) == 0 && result.Voters[0] != nil && result.Voters[1] == nil && result.Learners == nil && result.LearnersNext == nil && !result.AutoLeave
//@        && len(result.Progress) == 0 && result.Progress != nil && len(result.Votes) == 0 && result.Votes != nil
//@        && result.MaxInflight == maxInflight && result.MaxInflightBytes == maxBytes
//@   ensures #no-keys (forall id uint64 :: !has(result.Progress, id)) && (forall id uint64 :: !has(result.Votes, id)) && (forall id uint64 :: !has(result.Voters[0], id))
//@        && fresh(result.Progress) && fresh(result.Votes) && fresh(result.Voters[0])

//@ -- Visit calls f(id, p.Progress[id]) for every key of p.Progress in ascending id order (see DESIGN §2.2 "iterates", §12.1).
//@ -- Callers are verified against this promise; the body is verified against it with a ghost log of the callback
//@ -- invocations (ncalls(), callid(i)): exactly len(p.Progress) invocations, strictly ascending keys of the map as of the call,
//@ -- each with the map's current value. The callback itself is arbitrary code.
//@ func tracker.ProgressTracker.Visit [C19]
//@   iterates p.Progress
//@   requires p != nil
//@   loop 1 invariant #fill 0 <= iter && iter <= len(ids) && n == len(ids) - iter && len(ids) == old(len(p.Progress)) && fresh(ids) && p.Progress == old(p.Progress)
//@        && ncalls() == 0
//@   loop 1 invariant #filled forall a int :: {elem(ids, a)} ids.off + (len(ids) - iter) <= a && a < ids.off + len(ids) ==> elem(ids, a) == key(len(ids) - 1 - (a - ids.off))
//@   loop 1 invariant #filled-keys forall a int :: {elem(ids, a)} ids.off + (len(ids) - iter) <= a && a < ids.off + len(ids) ==> has(p.Progress, elem(ids, a))
//@   loop 1 invariant #filled-distinct forall a int, b int :: {elem(ids, a), elem(ids, b)} ids.off + (len(ids) - iter) <= a && a < b && b < ids.off + len(ids) ==> elem(ids, a) != elem(ids, b)
//@   loop 1 invariant #dom-kept forall id uint64 :: has(p.Progress, id) == old(has(p.Progress, id))
//@   loop 2 invariant #log 0 <= iter && iter <= len(ids) && ncalls() == iter && len(ids) == old(len(p.Progress))
//@   loop 2 invariant #logged forall i int :: {callid(i)} 0 <= i && i < iter ==> callid(i) == elem(ids, ids.off + i)
//@   loop 2 invariant #ascending forall a int, b int :: {elem(ids, a), elem(ids, b)} ids.off <= a && a < b && b < ids.off + len(ids) ==> elem(ids, a) < elem(ids, b)
//@   loop 2 invariant #keys forall q int, k uint64 :: {elem(ids, q), old(has(p.Progress, k))} ids.off <= q && q < ids.off + len(ids) && k == elem(ids, q) ==> old(has(p.Progress, k))

//@ spec activeCnt(p *ProgressTracker, c quorum.MajorityConfig) int := cnt(c, id :: has(p.Progress, id) && !p.Progress[id].IsLearner && p.Progress[id].RecentActive)
//@ pred majActive(p *ProgressTracker, c quorum.MajorityConfig) := len(c) == 0 || activeCnt(p, c) >= len(c) / 2 + 1

//@ func tracker.ProgressTracker.QuorumActive [C17 C12]
//@   requires p != nil && progress_nonnil(p)
//@   visit 1 invariant #domain forall id uint64 :: has(votes, id) <==> (seen(id) && !p.Progress[id].IsLearner)
//@   visit 1 invariant #values forall id uint64 :: has(votes, id) ==> votes[id] == p.Progress[id].RecentActive
//@   visit 1 invariant #votes-map votes != nil
//@   after quorum.JointConfig.VoteResult assume cnt_mono(p.Voters[0], id :: has(votes, id) && votes[id], id :: has(p.Progress, id) && !p.Progress[id].IsLearner && p.Progress[id].RecentActive)
//@        && cnt_mono(p.Voters[0], id :: has(p.Progress, id) && !p.Progress[id].IsLearner && p.Progress[id].RecentActive, id :: has(votes, id) && votes[id])
//@        && cnt_mono(p.Voters[1], id :: has(votes, id) && votes[id], id :: has(p.Progress, id) && !p.Progress[id].IsLearner && p.Progress[id].RecentActive)
//@        && cnt_mono(p.Voters[1], id :: has(p.Progress, id) && !p.Progress[id].IsLearner && p.Progress[id].RecentActive, id :: has(votes, id) && votes[id])
//@   ensures #quorum-of-recent-active [C17 C12] result <==> (majActive(p, p.Voters[0]) && majActive(p, p.Voters[1]))

//@ -- every progress record is well-formed (records or inflight windows shared between ids would not invalidate this:
//@ -- every operation re-establishes well-formedness of exactly the objects it writes)
//@ pred opaque wf_trk(p *ProgressTracker) := p != nil && p.Progress != nil && p.Votes != nil
//@     && (forall id uint64 :: has(p.Progress, id) ==> wf_progress(p.Progress[id]))

//@ -- progress records (and their inflight windows) are not shared between ids
//@ pred opaque trk_distinct(p *ProgressTracker) := forall a uint64, b uint64 :: {has(p.Progress, a), has(p.Progress, b)}
//@     has(p.Progress, a) && has(p.Progress, b) && a != b ==> p.Progress[a] != p.Progress[b]

//@ -- ------------------------------------------------------------------------------------------
//@ -- Config.Clone: fresh copies of the four id sets (nil stays nil); AutoLeave is not copied (callers set or require it false)

//@ pred sameSet(a quorum.MajorityConfig, b quorum.MajorityConfig) := (forall id uint64 :: has(a, id) == has(b, id)) && len(a) == len(b) && ((a == nil) <==> (b == nil))
//@ -- the copying helper (a closure without captured variables) under its own contract: a fresh set with the same members, nil stays nil,
//@ -- and no set that existed before is written
//@ func tracker.Config.Clone$1 [C13]
//@   ensures #copy [C13] sameSet(result, m) && (result != nil ==> fresh(result))
//@   ensures #input-untouched [C13] allocframe("M$map[uint64]struct{}")
//@   loop 1 invariant #copying mm != nil && fresh(mm) && len(mm) == iter && (forall id uint64 :: has(mm, id) <==> seen(id))
//@   loop 1 invariant #frame frameexcept("M$map[uint64]struct{}", mm)
//@ func tracker.Config.Clone [C13]
//@   frame elems quorum.MajorityConfig:
//@   requires c != nil
//@   ensures #copies [C13] sameSet(result.Voters[0], c.Voters[0])
//@   ensures #copies-outgoing [C13] sameSet(result.Voters[1], c.Voters[1])
//@   ensures #copies-learners [C13] sameSet(result.Learners, c.Learners)
//@   ensures #copies-learners-next [C13] sameSet(result.LearnersNext, c.LearnersNext)
//@   ensures #fresh [C13] (result.Voters[0] != nil ==> fresh(result.Voters[0])) && (result.Voters[1] != nil ==> fresh(result.Voters[1]))
//@        && (result.Learners != nil ==> fresh(result.Learners)) && (result.LearnersNext != nil ==> fresh(result.LearnersNext))
//@   ensures #distinct [C13] (result.Voters[0] != result.Voters[1] || result.Voters[0] == nil) && (result.Voters[0] != result.Learners || result.Learners == nil)
//@        && (result.Voters[0] != result.LearnersNext || result.LearnersNext == nil) && (result.Voters[1] != result.Learners || result.Learners == nil)
//@        && (result.Voters[1] != result.LearnersNext || result.LearnersNext == nil) && (result.Learners != result.LearnersNext || result.Learners == nil)
//@   ensures #auto-leave-dropped !result.AutoLeave
//@   ensures #input-untouched [C13] allocframe("M$map[uint64]struct{}")

//@ -- ------------------------------------------------------------------------------------------
//@ -- ConfState: a fresh record listing each of the four id sets once, ascending, and the AutoLeave flag
//@ func tracker.ProgressTracker.ConfState [C13 C19]
//@   requires p != nil
//@   ensures #fresh result != nil && fresh(result)
//@   ensures #voters [C13 C19] ids_of(result.Voters, p.Voters[0])
//@   ensures #outgoing [C13 C19] ids_of(result.VotersOutgoing, p.Voters[1])
//@   ensures #learners [C13 C19] ids_of(result.Learners, p.Learners)
//@   ensures #learners-next [C13 C19] ids_of(result.LearnersNext, p.LearnersNext)
//@   ensures #auto-leave [C13] result.AutoLeave != nil && deref(result.AutoLeave) == p.AutoLeave

//@ -- VoterNodes: a fresh sorted list (used for logging only)
//@ func tracker.ProgressTracker.VoterNodes
//@   frame elems uint64:
//@   frame elems quorum.MajorityConfig:
//@   requires p != nil
//@   loop 1 invariant #fill len(nodes) == iter && fresh(nodes)
//@   loop 1 invariant #frame allocframe("E$uint64")
//@   ensures #fresh len(result) > 0 ==> fresh(result)
