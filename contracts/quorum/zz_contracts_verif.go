//go:build verif

// Contracts for package quorum (comment-only; read by /verif/govc). See /verif/DESIGN.md §4.12.

package quorum

//@ -- ------------------------------------------------------------------------------------------
//@ -- Vote results. cnt(m, k :: P) is the number of keys of map m satisfying P (engine construct, DESIGN §2.5).
//@ -- The specification is the property's sentence: Won iff a strict majority said yes, Lost iff that has become
//@ -- impossible (yes + missing < quorum), Pending otherwise; the empty set wins by convention.

//@ spec yesCnt(c MajorityConfig, votes map[uint64]bool) int := cnt(c, id :: has(votes, id) && votes[id])
//@ spec missCnt(c MajorityConfig, votes map[uint64]bool) int := cnt(c, id :: !has(votes, id))
//@ spec majVoteSpec(c MajorityConfig, votes map[uint64]bool) VoteResult :=
//@     len(c) == 0 ? VoteWon
//@   : yesCnt(c, votes) >= len(c) / 2 + 1 ? VoteWon
//@   : yesCnt(c, votes) + missCnt(c, votes) < len(c) / 2 + 1 ? VoteLost : VotePending

//@ spec jointVoteSpec(c JointConfig, votes map[uint64]bool) VoteResult :=
//@     (majVoteSpec(c[0], votes) == VoteWon && majVoteSpec(c[1], votes) == VoteWon) ? VoteWon
//@   : (majVoteSpec(c[0], votes) == VoteLost || majVoteSpec(c[1], votes) == VoteLost) ? VoteLost : VotePending

//@ func quorum.MajorityConfig.VoteResult [C12 C02 C17]
//@   pure
//@   ensures #spec result == majVoteSpec(c, votes)
//@   loop 1 invariant #counts votedCnt == cntsofar(id :: has(votes, id) && votes[id]) && missing == cntsofar(id :: !has(votes, id))
//@   loop 1 invariant #range 0 <= votedCnt && 0 <= missing && votedCnt + missing <= iter

//@ func quorum.JointConfig.VoteResult [C12 C02 C10]
//@   pure
//@   ensures #spec result == jointVoteSpec(c, votes)

//@ -- ------------------------------------------------------------------------------------------
//@ -- Committed index. The acknowledgement source is an interface; its contract introduces the abstract
//@ -- acknowledgement function ack(l, id) (0 when not found).

//@ -- The abstract functions take the heap versions an implementation may read as (hidden) arguments, so statements made
//@ -- about them in different states are independent.
//@ ufun ackFound(l AckedIndexer, id uint64) bool reads M$map[uint64]*tracker.Progress, F$tracker.Progress.Match, M$map[uint64]uint64, M$map[uint64]quorum.Index
//@ ufun ackIdx(l AckedIndexer, id uint64) uint64 reads M$map[uint64]*tracker.Progress, F$tracker.Progress.Match, M$map[uint64]uint64, M$map[uint64]quorum.Index
//@ spec ack(l AckedIndexer, id uint64) uint64 := ackFound(l, id) ? ackIdx(l, id) : 0

//@ func quorum.AckedIndexer.AckedIndex
//@   pure
//@   ensures found == ackFound(self, voterID) && idx == ackIdx(self, voterID)

//@ -- The property's sentence: the result is the largest index acknowledged by a strict majority (missing voters count 0):
//@ -- at least q = n/2+1 voters acknowledge >= result (vacuous for result 0), and fewer than q acknowledge > result.
//@ spec geCnt(c MajorityConfig, l AckedIndexer, v int) int := cnt(c, id :: ack(l, id) >= v)
//@ spec gtCnt(c MajorityConfig, l AckedIndexer, v int) int := cnt(c, id :: ack(l, id) > v)
//@ pred majCommittedSpec(c MajorityConfig, l AckedIndexer, r int) :=
//@     (r == 0 || geCnt(c, l, r) >= len(c) / 2 + 1) && gtCnt(c, l, r) < len(c) / 2 + 1

//@ func quorum.MajorityConfig.CommittedIndex [C12 C06 C11 C14]
//@   requires !isnil(l)
//@   ensures #empty len(c) == 0 ==> result == 18446744073709551615
//@   ensures #majority [C12 C06 C11] len(c) > 0 ==> majCommittedSpec(c, l, result)
//@   ensures #is-an-ack [C12 C11 C14] len(c) > 0 ==> (result == 0 || (exists id uint64 :: has(c, id) && ack(l, id) == result))
//@   loop 1 invariant #fill 0 - 1 <= i && i == len(c) - 1 - cntsofar(id :: ackFound(l, id)) && len(srt) == len(c) && n == len(c)
//@   loop 1 invariant #zeros forall p int :: 0 <= p && p <= i ==> srt[p] == 0
//@   loop 1 invariant #ge forall v int :: v > 0 ==> acntge(srt, v) == cntsofar(id :: ack(l, id) >= v)
//@   loop 1 invariant #gt forall v int :: v >= 0 ==> acntgt(srt, v) == cntsofar(id :: ack(l, id) > v)
//@   loop 1 invariant #acks forall p int :: 0 <= p && p < len(srt) ==> (srt[p] == 0 || (exists id uint64 :: has(c, id) && ack(l, id) == srt[p]))

//@ -- joint: r is acknowledged by a majority of every non-empty half, and for some non-empty half no larger index is
//@ -- (i.e. r is the minimum of the halves' majority indexes; an empty half imposes no constraint; both empty: +infinity)
//@ pred jointCommittedSpec(c JointConfig, l AckedIndexer, r int) :=
//@     (len(c[0]) == 0 && len(c[1]) == 0) ? r == 18446744073709551615
//@   : ((len(c[0]) > 0 ==> r == 0 || geCnt(c[0], l, r) >= len(c[0]) / 2 + 1) && (len(c[1]) > 0 ==> r == 0 || geCnt(c[1], l, r) >= len(c[1]) / 2 + 1)
//@      && ((len(c[0]) > 0 && gtCnt(c[0], l, r) < len(c[0]) / 2 + 1) || (len(c[1]) > 0 && gtCnt(c[1], l, r) < len(c[1]) / 2 + 1)))

//@ func quorum.JointConfig.CommittedIndex [C12 C06 C10]
//@   requires !isnil(l)
//@   after quorum.MajorityConfig.CommittedIndex #2 assume cnt_mono(c[1], id :: ack(l, id) >= result, id :: ack(l, id) >= idx0) && cnt_mono(c[0], id :: ack(l, id) >= idx0, id :: ack(l, id) >= result)
//@   ensures #joint-min [C12 C06 C10] jointCommittedSpec(c, l, result)
//@   ensures #is-an-ack [C11 C14] (len(c[0]) > 0 || len(c[1]) > 0) ==> (result == 0 || (exists id uint64 :: (has(c[0], id) || has(c[1], id)) && ack(l, id) == result))

//@ func quorum.JointConfig.IDs [C13 C19]
//@   frame elems quorum.MajorityConfig:
//@   ensures #union fresh(result) && result != nil && (forall id uint64 :: has(result, id) <==> (has(c[0], id) || has(c[1], id)))
//@   loop 1 invariant #outer allocframe("M$map[uint64]struct{}") && 0 <= iter && iter <= 2 && m != nil && fresh(m)
//@        && (forall id uint64 :: has(m, id) <==> ((iter >= 1 && has(c[0], id)) || (iter >= 2 && has(c[1], id))))
//@   loop 2 invariant #inner allocframe("M$map[uint64]struct{}") && 0 <= slice_iter && slice_iter < 2 && m != nil && fresh(m) && (forall id uint64 :: has(m, id) <==> ((slice_iter >= 1 && has(c[0], id)) || (slice_iter >= 2 && has(c[1], id)) || seen(id)))

//@ -- ------------------------------------------------------------------------------------------
//@ -- Slice: the ids of the set, each once, in strictly ascending order (used for ConfState, C13/C19)
//@ pred opaque ids_of(s []uint64, c MajorityConfig) := len(s) == len(c) && (forall i int :: {s[i]} 0 <= i && i < len(s) ==> has(c, s[i]))
//@     && (forall i int, j int :: {s[i], s[j]} 0 <= i && i < j && j < len(s) ==> s[i] < s[j])
//@ func quorum.MajorityConfig.Slice [C13 C19]
//@   reveal ids_of
//@   frame elems uint64:
//@   ensures #ids-of [C13 C19] ids_of(result, c)
//@   ensures #fresh len(result) > 0 ==> fresh(result)
//@   loop 1 invariant #fill len(sl) == iter && (iter > 0 ==> fresh(sl)) && (iter == 0 ==> cap(sl) == 0)
//@   loop 1 invariant #frame allocframe("E$uint64")
//@   loop 1 invariant #filled forall a int :: {elem(sl, a)} sl.off <= a && a < sl.off + len(sl) ==> elem(sl, a) == key(a - sl.off)
