//go:build verif

// Contracts for package raft (comment-only; read by /verif/govc). See /verif/DESIGN.md.

package raft

//@ -- ------------------------------------------------------------------------------------------
//@ -- util.go

//@ func raft.limitSize [C16 C18 C08]
//@   ensures #prefix result.arr == ents.arr && result.off == ents.off && len(result) <= len(ents) && (len(ents) > 0 ==> len(result) > 0)
//@   ensures #budget len(result) <= 1 || sumsize(ents, len(result)) <= maxSize
//@   ensures #maximal len(result) == len(ents) || sumsize(ents, len(result) + 1) > maxSize
//@   loop 1 invariant #acc 1 <= limit && limit <= len(ents) && size == sumsize(ents, limit) && (limit > 1 ==> size <= maxSize)
//@   loop 1 decreases len(ents) - limit
