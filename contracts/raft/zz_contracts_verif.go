//go:build verif

// Contracts for package raft (comment-only; read by /verif/govc). See /verif/DESIGN.md.

package raft

//@ -- ------------------------------------------------------------------------------------------
//@ -- util.go

//@ func raft.limitSize [C16 C18 C08]
//@   ensures #prefix result.arr == ents.arr && result.off == ents.off && len(result) <= len(ents) && (len(ents) > 0 ==> len(result) > 0)
//@   ensures #budget len(result) <= 1 || sumsize(ents, len(result)) <= maxSize
//@   ensures #maximal len(result) == len(ents) || sumsize(ents, len(result) + 1) > maxSize
//@   loop 1 invariant #acc 1 <= limit && limit <= len(ents) && size == sumsize(ents, limit) && (limit > 1 ==> size <= maxSize)
//@   loop 1 decreases len(ents) - limit

//@ -- ------------------------------------------------------------------------------------------
//@ -- entries and snapshots (protobuf getters are evaluated from their real bodies)

//@ spec eterm(e *pb.Entry) uint64 := e.GetTerm()
//@ spec eindex(e *pb.Entry) uint64 := e.GetIndex()
//@ spec snapIndex(s *pb.Snapshot) uint64 := s.GetMetadata().GetIndex()
//@ spec snapTerm(s *pb.Snapshot) uint64 := s.GetMetadata().GetTerm()

//@ -- quantifiers range over absolute backing-array positions p (elem(s, p) with s.off <= p < s.off+len(s)): this gives
//@ -- the solvers a trigger that matches every access to the array, independent of index arithmetic.
//@ pred entriesFrom(ents []*pb.Entry, first int) := forall p int :: ents.off <= p && p < ents.off + len(ents) ==> elem(ents, p) != nil && eindex(elem(ents, p)) == first + (p - ents.off)
//@ pred contiguous(ents []*pb.Entry) := entriesFrom(ents, eindex(ents[0]))
//@ pred termsMonotone(ents []*pb.Entry) := forall p int, q int :: ents.off <= p && p <= q && q < ents.off + len(ents) ==> eterm(elem(ents, p)) <= eterm(elem(ents, q))

//@ -- ------------------------------------------------------------------------------------------
//@ -- log_unstable.go

//@ pred wf_unstable(u *unstable) := u != nil && u.offset <= u.offsetInProgress && u.offsetInProgress <= u.offset + len(u.entries)
//@     && u.offset + len(u.entries) < 9223372036854775808
//@     && entriesFrom(u.entries, u.offset)
//@     && termsMonotone(u.entries)
//@     && (u.snapshot != nil ==> snapIndex(u.snapshot) < u.offset)
//@     && (u.snapshotInProgress ==> u.snapshot != nil)

//@ func raft.unstable.maybeFirstIndex [C18]
//@   pure
//@   requires wf_unstable(u)
//@   ensures #view (u.snapshot != nil ==> result0 == snapIndex(u.snapshot) + 1 && result1) && (u.snapshot == nil ==> result0 == 0 && !result1)

//@ func raft.unstable.maybeLastIndex [C18]
//@   pure
//@   requires wf_unstable(u)
//@   ensures #view (len(u.entries) != 0 ==> result0 == u.offset + len(u.entries) - 1 && result1)
//@        && (len(u.entries) == 0 && u.snapshot != nil ==> result0 == snapIndex(u.snapshot) && result1)
//@        && (len(u.entries) == 0 && u.snapshot == nil ==> result0 == 0 && !result1)

//@ func raft.unstable.maybeTerm [C18 C03]
//@   pure
//@   requires wf_unstable(u)
//@   ensures #entries [C18 C03] i >= u.offset && i < u.offset + len(u.entries) ==> result0 == eterm(u.entries[i - u.offset]) && result1
//@   ensures #snapshot [C18] i < u.offset && u.snapshot != nil && snapIndex(u.snapshot) == i ==> result0 == snapTerm(u.snapshot) && result1
//@   ensures #otherwise [C18] !(i >= u.offset && i < u.offset + len(u.entries)) && !(i < u.offset && u.snapshot != nil && snapIndex(u.snapshot) == i) ==> result0 == 0 && !result1

//@ func raft.unstable.nextEntries [C18 C05]
//@   pure
//@   requires wf_unstable(u)
//@   ensures #suffix (u.offsetInProgress == u.offset + len(u.entries) ==> isnil(result))
//@        && (u.offsetInProgress < u.offset + len(u.entries) ==> result.arr == u.entries.arr && result.off == u.entries.off + (u.offsetInProgress - u.offset)
//@              && len(result) == len(u.entries) - (u.offsetInProgress - u.offset))

//@ func raft.unstable.acceptInProgress [C18 C05]
//@   requires wf_unstable(u)
//@   frame raft.unstable: u
//@   ensures #in-progress (len(u.entries) > 0 ==> u.offsetInProgress == u.offset + len(u.entries)) && (len(u.entries) == 0 ==> u.offsetInProgress == old(u.offsetInProgress))
//@        && (u.snapshot != nil ==> u.snapshotInProgress) && (u.snapshot == nil ==> u.snapshotInProgress == old(u.snapshotInProgress))
//@   ensures #view-kept u.entries == old(u.entries) && u.offset == old(u.offset) && u.snapshot == old(u.snapshot)
//@   ensures #wf wf_unstable(u)

//@ func raft.unstable.shrinkEntriesArray [C18]
//@   requires u != nil
//@   frame raft.unstable: u
//@   ensures len(u.entries) == old(len(u.entries)) && (len(u.entries) > 0 ==> u.entries == old(u.entries)) && u.offset == old(u.offset)
//@        && u.offsetInProgress == old(u.offsetInProgress) && u.snapshot == old(u.snapshot) && u.snapshotInProgress == old(u.snapshotInProgress)

//@ func raft.unstable.stableTo [C18 C03 C05]
//@   requires #wf wf_unstable(u)
//@   frame raft.unstable: u
//@   ensures #aba-ignored [C03 C18 C05] !(id.index >= old(u.offset) && id.index < old(u.offset) + old(len(u.entries)) && old(eterm(u.entries[id.index - u.offset])) == id.term)
//@        ==> u.entries == old(u.entries) && u.offset == old(u.offset) && u.offsetInProgress == old(u.offsetInProgress)
//@   ensures #stable-prefix-dropped [C03 C18 C05] (id.index >= old(u.offset) && id.index < old(u.offset) + old(len(u.entries)) && old(eterm(u.entries[id.index - u.offset])) == id.term)
//@        ==> u.offset == id.index + 1 && len(u.entries) == old(len(u.entries)) - (id.index + 1 - old(u.offset))
//@            && u.offsetInProgress == max(old(u.offsetInProgress), id.index + 1)
//@            && (len(u.entries) > 0 ==> u.entries.arr == old(u.entries.arr) && u.entries.off == old(u.entries.off) + (id.index + 1 - old(u.offset)))
//@   ensures #snapshot-kept u.snapshot == old(u.snapshot) && u.snapshotInProgress == old(u.snapshotInProgress)
//@   ensures #wf wf_unstable(u)

//@ func raft.unstable.stableSnapTo [C18 C09]
//@   requires wf_unstable(u)
//@   frame raft.unstable: u
//@   ensures #cleared (old(u.snapshot) != nil && old(snapIndex(u.snapshot)) == i ==> u.snapshot == nil && !u.snapshotInProgress)
//@        && (!(old(u.snapshot) != nil && old(snapIndex(u.snapshot)) == i) ==> u.snapshot == old(u.snapshot) && u.snapshotInProgress == old(u.snapshotInProgress))
//@   ensures #entries-kept u.entries == old(u.entries) && u.offset == old(u.offset) && u.offsetInProgress == old(u.offsetInProgress)
//@   ensures #wf wf_unstable(u)

//@ func raft.unstable.restore [C18 C09]
//@   requires u != nil && s != nil && snapIndex(s) < 9223372036854775807
//@   frame raft.unstable: u
//@   ensures #base [C09 C18] u.offset == old(snapIndex(s)) + 1 && u.offsetInProgress == u.offset && len(u.entries) == 0 && !u.snapshotInProgress
//@   ensures #snapshot [C09] u.snapshot != nil && fresh(u.snapshot) && snapIndex(u.snapshot) == old(snapIndex(s)) && snapTerm(u.snapshot) == old(snapTerm(s))
//@   ensures #wf wf_unstable(u)

//@ func raft.unstable.mustCheckOutOfBounds [C18 C14]
//@   pure
//@   requires #wf wf_unstable(u)
//@   requires #bounds [C14] lo <= hi && u.offset <= lo && hi <= u.offset + len(u.entries)

//@ func raft.unstable.slice [C18 C14]
//@   pure
//@   requires #wf wf_unstable(u)
//@   requires #bounds [C14] lo <= hi && u.offset <= lo && hi <= u.offset + len(u.entries)
//@   ensures #window [C18] result.arr == u.entries.arr && result.off == u.entries.off + (lo - u.offset) && len(result) == hi - lo && cap(result) == hi - lo

//@ func raft.unstable.truncateAndAppend [C18 C03 C01]
//@   requires #wf wf_unstable(u)
//@   requires #ents len(ents) > 0 && contiguous(ents) && termsMonotone(ents) && eindex(ents[0]) + len(ents) < 9223372036854775808
//@   requires #no-gap [C14] eindex(ents[0]) <= u.offset + len(u.entries)
//@   requires #seam eindex(ents[0]) > u.offset ==> eterm(u.entries[eindex(ents[0]) - 1 - u.offset]) <= eterm(ents[0])
//@   requires #above-snapshot u.snapshot != nil ==> eindex(ents[0]) > snapIndex(u.snapshot)
//@   frame raft.unstable: u
//@   ensures #offset [C18 C03] u.offset == min(old(u.offset), old(eindex(ents[0])))
//@   ensures #in-progress [C18 C05] u.offsetInProgress == (old(eindex(ents[0])) <= old(u.offset) ? old(eindex(ents[0])) : min(old(u.offsetInProgress), old(eindex(ents[0]))))
//@   ensures #length [C18 C03] len(u.entries) == (old(eindex(ents[0])) <= old(u.offset) ? 0 : old(eindex(ents[0])) - old(u.offset)) + len(ents)
//@   ensures #kept-prefix [C18 C03 C01] forall p int, q int :: u.entries.off <= p && p < u.entries.off + (old(eindex(ents[0])) - old(u.offset))
//@             && q == old(u.entries.off) + (p - u.entries.off) ==> elem(u.entries, p) == old(elem(u.entries, q))
//@   ensures #appended [C18 C03] forall p int, k int, q int :: k == (old(eindex(ents[0])) <= old(u.offset) ? 0 : old(eindex(ents[0])) - old(u.offset))
//@             && u.entries.off + k <= p && p < u.entries.off + k + len(ents) && q == ents.off + (p - u.entries.off - k) ==> elem(u.entries, p) == old(elem(ents, q))
//@   ensures #no-overwrite [C18] forall p int :: old(u.entries.off) <= p && p < old(u.entries.off) + old(len(u.entries)) ==> elem(old(u.entries), p) == old(elem(u.entries, p))
//@   ensures #snapshot-kept u.snapshot == old(u.snapshot) && u.snapshotInProgress == old(u.snapshotInProgress)
//@   ensures #wf wf_unstable(u)

//@ -- ------------------------------------------------------------------------------------------
//@ -- storage.go: MemoryStorage against the abstract log (off = ents[0].Index is the compaction point,
//@ -- entries off+1 .. off+len-1 are available, term is known from off on).

//@ pred wf_ms(ms *MemoryStorage) := ms != nil && len(ms.ents) >= 1 && entriesFrom(ms.ents, eindex(ms.ents[0]))
//@     && eindex(ms.ents[0]) + len(ms.ents) < 9223372036854775808
//@ spec ms_off(ms *MemoryStorage) uint64 := eindex(ms.ents[0])
//@ spec ms_last(ms *MemoryStorage) uint64 := eindex(ms.ents[0]) + len(ms.ents) - 1
//@ spec ms_ent(ms *MemoryStorage, i int) *pb.Entry := ms.ents[i - eindex(ms.ents[0])]
//@ pred ms_log_unchanged(ms *MemoryStorage) := ms.ents == old(ms.ents)

//@ func raft.MemoryStorage.lastIndex [C18]
//@   pure
//@   requires wf_ms(ms)
//@   ensures result == ms_last(ms)

//@ func raft.MemoryStorage.firstIndex [C18]
//@   pure
//@   requires wf_ms(ms)
//@   ensures result == ms_off(ms) + 1

//@ func raft.MemoryStorage.FirstIndex [C18]
//@   requires wf_ms(ms)
//@   frame raft.MemoryStorage: ms
//@   ensures #view [C18] result0 == ms_off(ms) + 1 && result1 == nil && ms_log_unchanged(ms)

//@ func raft.MemoryStorage.LastIndex [C18]
//@   requires wf_ms(ms)
//@   frame raft.MemoryStorage: ms
//@   ensures #view [C18] result0 == ms_last(ms) && result1 == nil && ms_log_unchanged(ms)

//@ func raft.MemoryStorage.Term [C18 C14]
//@   requires wf_ms(ms)
//@   frame raft.MemoryStorage: ms
//@   ensures #compacted [C18] i < ms_off(ms) ==> result0 == 0 && result1 == ErrCompacted
//@   ensures #unavailable [C18] i > ms_last(ms) ==> result0 == 0 && result1 == ErrUnavailable
//@   ensures #term [C18] ms_off(ms) <= i && i <= ms_last(ms) ==> result1 == nil && result0 == eterm(ms_ent(ms, i))
//@   ensures #unchanged ms_log_unchanged(ms)

//@ func raft.MemoryStorage.Entries [C18 C16 C14]
//@   requires wf_ms(ms)
//@   requires #usage [C14] lo <= hi && hi <= ms_last(ms) + 1
//@   frame raft.MemoryStorage: ms
//@   ensures #compacted [C18] lo <= ms_off(ms) ==> isnil(result0) && result1 == ErrCompacted
//@   ensures #only-dummy [C18] lo > ms_off(ms) && len(ms.ents) == 1 ==> isnil(result0) && result1 == ErrUnavailable
//@   ensures #window [C18] lo > ms_off(ms) && len(ms.ents) > 1 ==> result1 == nil && result0.arr == ms.ents.arr && result0.off == ms.ents.off + (lo - ms_off(ms))
//@        && len(result0) <= hi - lo && (lo < hi ==> len(result0) >= 1) && cap(result0) == len(result0)
//@   ensures #budget [C16 C18] lo > ms_off(ms) && len(ms.ents) > 1 ==> (len(result0) <= 1 || sumsize(result0, len(result0)) <= maxSize)
//@   ensures #maximal [C16 C18] lo > ms_off(ms) && len(ms.ents) > 1 ==> (len(result0) == hi - lo || sumsize(ms.ents[lo - ms_off(ms):], len(result0) + 1) > maxSize)
//@   ensures #unchanged ms_log_unchanged(ms)

//@ func raft.MemoryStorage.Append [C18 C14]
//@   requires wf_ms(ms)
//@   requires #contiguous len(entries) > 0 ==> contiguous(entries) && eindex(entries[0]) + len(entries) < 9223372036854775808
//@   requires #no-gap [C14] len(entries) > 0 ==> eindex(entries[0]) <= ms_last(ms) + 1
//@   frame raft.MemoryStorage: ms
//@   ensures #noop [C18] len(entries) == 0 || old(eindex(entries[0])) + len(entries) - 1 < old(ms_off(ms)) + 1 ==> ms_log_unchanged(ms)
//@   ensures #off-kept [C18] ms_off(ms) == old(ms_off(ms))
//@   ensures #last [C18] len(entries) > 0 && old(eindex(entries[0])) + len(entries) - 1 >= old(ms_off(ms)) + 1 ==> ms_last(ms) == old(eindex(entries[0])) + len(entries) - 1
//@   ensures #kept [C18] forall p int, q int :: len(entries) > 0 && ms.ents.off <= p && p < ms.ents.off + (old(eindex(entries[0])) - old(ms_off(ms))) && p < ms.ents.off + len(ms.ents)
//@        && q == old(ms.ents.off) + (p - ms.ents.off) ==> elem(ms.ents, p) == old(elem(ms.ents, q))
//@   ensures #appended [C18] forall p int, q int :: len(entries) > 0 && old(eindex(entries[0])) + len(entries) - 1 >= old(ms_off(ms)) + 1
//@        && ms.ents.off + max(old(eindex(entries[0])), old(ms_off(ms)) + 1) - old(ms_off(ms)) <= p && p < ms.ents.off + len(ms.ents)
//@        && q == entries.off + ((p - ms.ents.off) + old(ms_off(ms)) - old(eindex(entries[0]))) ==> elem(ms.ents, p) == old(elem(entries, q))
//@   ensures #no-overwrite [C18] forall p int :: old(ms.ents.off) <= p && p < old(ms.ents.off) + old(len(ms.ents)) ==> elem(old(ms.ents), p) == old(elem(ms.ents, p))
//@   ensures #wf wf_ms(ms) && result == nil

//@ func raft.MemoryStorage.Compact [C18 C14]
//@   requires wf_ms(ms)
//@   requires #usage [C14] compactIndex <= ms_last(ms)
//@   frame raft.MemoryStorage: ms
//@   ensures #stale [C18] compactIndex <= old(ms_off(ms)) ==> result == ErrCompacted && ms_log_unchanged(ms)
//@   ensures #compacted-ok [C18] compactIndex > old(ms_off(ms)) ==> result == nil
//@   ensures #compacted-off [C18] compactIndex > old(ms_off(ms)) ==> ms_off(ms) == compactIndex
//@   ensures #compacted-last [C18] compactIndex > old(ms_off(ms)) ==> ms_last(ms) == old(ms_last(ms))
//@   ensures #compacted-term [C18] compactIndex > old(ms_off(ms)) ==> eterm(ms.ents[0]) == old(eterm(ms_ent(ms, compactIndex)))
//@   ensures #kept [C18] forall p int, q int :: compactIndex > old(ms_off(ms)) && ms.ents.off + 1 <= p && p < ms.ents.off + len(ms.ents)
//@        && q == old(ms.ents.off) + (p - ms.ents.off) + (compactIndex - old(ms_off(ms))) ==> elem(ms.ents, p) == old(elem(ms.ents, q))
//@   ensures #no-overwrite [C18] forall p int :: old(ms.ents.off) <= p && p < old(ms.ents.off) + old(len(ms.ents)) ==> elem(old(ms.ents), p) == old(elem(ms.ents, p))
//@   ensures #wf wf_ms(ms)
