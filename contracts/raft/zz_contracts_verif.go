//go:build verif

// Contracts for package raft (comment-only; read by /verif/govc). See /verif/DESIGN.md.

package raft

//@ -- ------------------------------------------------------------------------------------------
//@ -- util.go

//@ func raft.limitSize [C16 C18 C08]
//@   ensures #prefix result.arr == ents.arr && result.off == ents.off && len(result) <= len(ents) && (len(ents) > 0 ==> len(result) > 0)
//@   ensures #budget len(result) <= 1 || sumsize(ents, len(result)) <= maxSize
//@   ensures #maximal len(result) == len(ents) || sumsize(ents, len(result) + 1) > maxSize
//@   loop 1 invariant #acc 1 <= limit && limit <= len(ents) && size == sumsize(ents, limit) && (limit > 1 ==> size <= maxSize)
//@   loop 1 decreases len(ents) - limit

//@ -- ------------------------------------------------------------------------------------------
//@ -- entries and snapshots (protobuf getters are evaluated from their real bodies)

//@ spec eterm(e *pb.Entry) uint64 := e.GetTerm()
//@ spec eindex(e *pb.Entry) uint64 := e.GetIndex()
//@ spec snapIndex(s *pb.Snapshot) uint64 := s.GetMetadata().GetIndex()
//@ spec snapTerm(s *pb.Snapshot) uint64 := s.GetMetadata().GetTerm()

//@ -- quantifiers range over absolute backing-array positions p (elem(s, p) with s.off <= p < s.off+len(s)): this gives
//@ -- the solvers a trigger that matches every access to the array, independent of index arithmetic.
//@ pred entriesFrom(ents []*pb.Entry, first int) := forall p int :: ents.off <= p && p < ents.off + len(ents) ==> elem(ents, p) != nil && eindex(elem(ents, p)) == first + (p - ents.off)
//@ pred contiguous(ents []*pb.Entry) := entriesFrom(ents, eindex(ents[0]))
//@ pred opaque termsMonotone(ents []*pb.Entry) := forall p int, q int :: ents.off <= p && p <= q && q < ents.off + len(ents) ==> eterm(elem(ents, p)) <= eterm(elem(ents, q))

//@ -- ------------------------------------------------------------------------------------------
//@ -- log_unstable.go

//@ pred opaque wf_unstable(u *unstable) := u != nil && u.offset <= u.offsetInProgress && u.offsetInProgress <= u.offset + len(u.entries)
//@     && u.offset + len(u.entries) < 9223372036854775808
//@     && entriesFrom(u.entries, u.offset)
//@     && termsMonotone(u.entries)
//@     && (u.snapshot != nil ==> snapIndex(u.snapshot) < u.offset)
//@     && (u.snapshotInProgress ==> u.snapshot != nil)

//@ func raft.unstable.maybeFirstIndex [C18]
//@   reveal wf_unstable
//@   pure
//@   requires wf_unstable(u)
//@   ensures #view (u.snapshot != nil ==> result0 == snapIndex(u.snapshot) + 1 && result1) && (u.snapshot == nil ==> result0 == 0 && !result1)

//@ func raft.unstable.maybeLastIndex [C18]
//@   reveal wf_unstable
//@   pure
//@   requires wf_unstable(u)
//@   ensures #view (len(u.entries) != 0 ==> result0 == u.offset + len(u.entries) - 1 && result1)
//@        && (len(u.entries) == 0 && u.snapshot != nil ==> result0 == snapIndex(u.snapshot) && result1)
//@        && (len(u.entries) == 0 && u.snapshot == nil ==> result0 == 0 && !result1)

//@ func raft.unstable.maybeTerm [C18 C03]
//@   reveal wf_unstable
//@   pure
//@   requires wf_unstable(u)
//@   ensures #entries [C18 C03] i >= u.offset && i < u.offset + len(u.entries) ==> result0 == eterm(u.entries[i - u.offset]) && result1
//@   ensures #snapshot [C18] i < u.offset && u.snapshot != nil && snapIndex(u.snapshot) == i ==> result0 == snapTerm(u.snapshot) && result1
//@   ensures #otherwise [C18] !(i >= u.offset && i < u.offset + len(u.entries)) && !(i < u.offset && u.snapshot != nil && snapIndex(u.snapshot) == i) ==> result0 == 0 && !result1

//@ func raft.unstable.nextEntries [C18 C05]
//@   reveal wf_unstable
//@   pure
//@   requires wf_unstable(u)
//@   ensures #suffix (u.offsetInProgress == u.offset + len(u.entries) ==> isnil(result))
//@        && (u.offsetInProgress < u.offset + len(u.entries) ==> result.arr == u.entries.arr && result.off == u.entries.off + (u.offsetInProgress - u.offset)
//@              && len(result) == len(u.entries) - (u.offsetInProgress - u.offset))

//@ func raft.unstable.acceptInProgress [C18 C05]
//@   reveal wf_unstable
//@   requires wf_unstable(u)
//@   frame raft.unstable: u
//@   ensures #in-progress (len(u.entries) > 0 ==> u.offsetInProgress == u.offset + len(u.entries)) && (len(u.entries) == 0 ==> u.offsetInProgress == old(u.offsetInProgress))
//@        && (u.snapshot != nil ==> u.snapshotInProgress) && (u.snapshot == nil ==> u.snapshotInProgress == old(u.snapshotInProgress))
//@   ensures #view-kept u.entries == old(u.entries) && u.offset == old(u.offset) && u.snapshot == old(u.snapshot)
//@   ensures #wf wf_unstable(u)

//@ func raft.unstable.shrinkEntriesArray [C18]
//@   reveal wf_unstable
//@   requires u != nil
//@   frame raft.unstable: u
//@   ensures len(u.entries) == old(len(u.entries)) && (len(u.entries) > 0 ==> u.entries == old(u.entries)) && u.offset == old(u.offset)
//@        && u.offsetInProgress == old(u.offsetInProgress) && u.snapshot == old(u.snapshot) && u.snapshotInProgress == old(u.snapshotInProgress)

//@ func raft.unstable.stableTo [C18 C03 C05]
//@   reveal wf_unstable
//@   reveal termsMonotone
//@   requires #wf wf_unstable(u)
//@   frame raft.unstable: u
//@   ensures #aba-ignored [C03 C18 C05] !(id.index >= old(u.offset) && id.index < old(u.offset) + old(len(u.entries)) && old(eterm(u.entries[id.index - u.offset])) == id.term)
//@        ==> u.entries == old(u.entries) && u.offset == old(u.offset) && u.offsetInProgress == old(u.offsetInProgress)
//@   ensures #stable-prefix-dropped [C03 C18 C05] (id.index >= old(u.offset) && id.index < old(u.offset) + old(len(u.entries)) && old(eterm(u.entries[id.index - u.offset])) == id.term)
//@        ==> u.offset == id.index + 1 && len(u.entries) == old(len(u.entries)) - (id.index + 1 - old(u.offset))
//@            && u.offsetInProgress == max(old(u.offsetInProgress), id.index + 1)
//@            && (len(u.entries) > 0 ==> u.entries.arr == old(u.entries.arr) && u.entries.off == old(u.entries.off) + (id.index + 1 - old(u.offset)))
//@   ensures #snapshot-kept u.snapshot == old(u.snapshot) && u.snapshotInProgress == old(u.snapshotInProgress)
//@   ensures #wf wf_unstable(u)

//@ func raft.unstable.stableSnapTo [C18 C09]
//@   reveal wf_unstable
//@   requires wf_unstable(u)
//@   frame raft.unstable: u
//@   ensures #cleared (old(u.snapshot) != nil && old(snapIndex(u.snapshot)) == i ==> u.snapshot == nil && !u.snapshotInProgress)
//@        && (!(old(u.snapshot) != nil && old(snapIndex(u.snapshot)) == i) ==> u.snapshot == old(u.snapshot) && u.snapshotInProgress == old(u.snapshotInProgress))
//@   ensures #entries-kept u.entries == old(u.entries) && u.offset == old(u.offset) && u.offsetInProgress == old(u.offsetInProgress)
//@   ensures #wf wf_unstable(u)

//@ func raft.unstable.restore [C18 C09]
//@   reveal wf_unstable
//@   reveal termsMonotone
//@   requires u != nil && s != nil && snapIndex(s) < 9223372036854775807
//@   frame raft.unstable: u
//@   ensures #base [C09 C18] u.offset == old(snapIndex(s)) + 1 && u.offsetInProgress == u.offset && len(u.entries) == 0 && !u.snapshotInProgress
//@   ensures #snapshot [C09] u.snapshot != nil && fresh(u.snapshot) && snapIndex(u.snapshot) == old(snapIndex(s)) && snapTerm(u.snapshot) == old(snapTerm(s))
//@   ensures #wf wf_unstable(u)

//@ func raft.unstable.mustCheckOutOfBounds [C18 C14]
//@   reveal wf_unstable
//@   pure
//@   requires #wf wf_unstable(u)
//@   requires #bounds [C14] lo <= hi && u.offset <= lo && hi <= u.offset + len(u.entries)

//@ func raft.unstable.slice [C18 C14]
//@   reveal wf_unstable
//@   pure
//@   requires #wf wf_unstable(u)
//@   requires #bounds [C14] lo <= hi && u.offset <= lo && hi <= u.offset + len(u.entries)
//@   ensures #window [C18] result.arr == u.entries.arr && result.off == u.entries.off + (lo - u.offset) && len(result) == hi - lo && cap(result) == hi - lo

//@ func raft.unstable.truncateAndAppend [C18 C03 C01]
//@   reveal wf_unstable
//@   reveal termsMonotone
//@   requires #wf wf_unstable(u)
//@   requires #ents len(ents) > 0 && contiguous(ents) && termsMonotone(ents) && eindex(ents[0]) + len(ents) < 9223372036854775808
//@   requires #no-gap [C14] eindex(ents[0]) <= u.offset + len(u.entries)
//@   requires #seam eindex(ents[0]) > u.offset ==> eterm(u.entries[eindex(ents[0]) - 1 - u.offset]) <= eterm(ents[0])
//@   requires #above-snapshot u.snapshot != nil ==> eindex(ents[0]) > snapIndex(u.snapshot)
//@   frame raft.unstable: u
//@   ensures #offset [C18 C03] u.offset == min(old(u.offset), old(eindex(ents[0])))
//@   ensures #in-progress [C18 C05] u.offsetInProgress == (old(eindex(ents[0])) <= old(u.offset) ? old(eindex(ents[0])) : min(old(u.offsetInProgress), old(eindex(ents[0]))))
//@   ensures #length [C18 C03] len(u.entries) == (old(eindex(ents[0])) <= old(u.offset) ? 0 : old(eindex(ents[0])) - old(u.offset)) + len(ents)
//@   ensures #kept-prefix [C18 C03 C01] forall p int, q int :: u.entries.off <= p && p < u.entries.off + (old(eindex(ents[0])) - old(u.offset))
//@             && q == old(u.entries.off) + (p - u.entries.off) ==> elem(u.entries, p) == old(elem(u.entries, q))
//@   ensures #appended [C18 C03] forall p int, k int, q int :: k == (old(eindex(ents[0])) <= old(u.offset) ? 0 : old(eindex(ents[0])) - old(u.offset))
//@             && u.entries.off + k <= p && p < u.entries.off + k + len(ents) && q == ents.off + (p - u.entries.off - k) ==> elem(u.entries, p) == old(elem(ents, q))
//@   ensures #no-overwrite [C18] forall p int :: old(u.entries.off) <= p && p < old(u.entries.off) + old(len(u.entries)) ==> elem(old(u.entries), p) == old(elem(u.entries, p))
//@   ensures #snapshot-kept u.snapshot == old(u.snapshot) && u.snapshotInProgress == old(u.snapshotInProgress)
//@   ensures #wf wf_unstable(u)

//@ -- ------------------------------------------------------------------------------------------
//@ -- storage.go: MemoryStorage against the abstract log (off = ents[0].Index is the compaction point,
//@ -- entries off+1 .. off+len-1 are available, term is known from off on).

//@ pred wf_ms(ms *MemoryStorage) := ms != nil && len(ms.ents) >= 1 && entriesFrom(ms.ents, eindex(ms.ents[0]))
//@     && eindex(ms.ents[0]) + len(ms.ents) < 9223372036854775808
//@ spec ms_off(ms *MemoryStorage) uint64 := eindex(ms.ents[0])
//@ spec ms_last(ms *MemoryStorage) uint64 := eindex(ms.ents[0]) + len(ms.ents) - 1
//@ spec ms_ent(ms *MemoryStorage, i int) *pb.Entry := ms.ents[i - eindex(ms.ents[0])]
//@ pred ms_log_unchanged(ms *MemoryStorage) := ms.ents == old(ms.ents)

//@ func raft.MemoryStorage.lastIndex [C18]
//@   pure
//@   requires wf_ms(ms)
//@   ensures result == ms_last(ms)

//@ func raft.MemoryStorage.firstIndex [C18]
//@   pure
//@   requires wf_ms(ms)
//@   ensures result == ms_off(ms) + 1

//@ func raft.MemoryStorage.FirstIndex [C18]
//@   requires wf_ms(ms)
//@   frame raft.MemoryStorage: ms
//@   ensures #view [C18] result0 == ms_off(ms) + 1 && result1 == nil && ms_log_unchanged(ms)

//@ func raft.MemoryStorage.LastIndex [C18]
//@   requires wf_ms(ms)
//@   frame raft.MemoryStorage: ms
//@   ensures #view [C18] result0 == ms_last(ms) && result1 == nil && ms_log_unchanged(ms)

//@ func raft.MemoryStorage.Term [C18 C14]
//@   requires wf_ms(ms)
//@   frame raft.MemoryStorage: ms
//@   ensures #compacted [C18] i < ms_off(ms) ==> result0 == 0 && result1 == ErrCompacted
//@   ensures #unavailable [C18] i > ms_last(ms) ==> result0 == 0 && result1 == ErrUnavailable
//@   ensures #term [C18] ms_off(ms) <= i && i <= ms_last(ms) ==> result1 == nil && result0 == eterm(ms_ent(ms, i))
//@   ensures #unchanged ms_log_unchanged(ms)

//@ func raft.MemoryStorage.Entries [C18 C16 C14]
//@   requires wf_ms(ms)
//@   requires #usage [C14] lo <= hi && hi <= ms_last(ms) + 1
//@   frame raft.MemoryStorage: ms
//@   ensures #compacted [C18] lo <= ms_off(ms) ==> isnil(result0) && result1 == ErrCompacted
//@   ensures #only-dummy [C18] lo > ms_off(ms) && len(ms.ents) == 1 ==> isnil(result0) && result1 == ErrUnavailable
//@   ensures #window [C18] lo > ms_off(ms) && len(ms.ents) > 1 ==> result1 == nil && result0.arr == ms.ents.arr && result0.off == ms.ents.off + (lo - ms_off(ms))
//@        && len(result0) <= hi - lo && (lo < hi ==> len(result0) >= 1) && cap(result0) == len(result0)
//@   ensures #budget [C16 C18] lo > ms_off(ms) && len(ms.ents) > 1 ==> (len(result0) <= 1 || sumsize(result0, len(result0)) <= maxSize)
//@   ensures #maximal [C16 C18] lo > ms_off(ms) && len(ms.ents) > 1 ==> (len(result0) == hi - lo || sumsize(ms.ents[lo - ms_off(ms):], len(result0) + 1) > maxSize)
//@   ensures #unchanged ms_log_unchanged(ms)

//@ func raft.MemoryStorage.Append [C18 C14]
//@   requires wf_ms(ms)
//@   requires #contiguous len(entries) > 0 ==> contiguous(entries) && eindex(entries[0]) + len(entries) < 9223372036854775808
//@   requires #no-gap [C14] len(entries) > 0 ==> eindex(entries[0]) <= ms_last(ms) + 1
//@   frame raft.MemoryStorage: ms
//@   ensures #noop [C18] len(entries) == 0 || old(eindex(entries[0])) + len(entries) - 1 < old(ms_off(ms)) + 1 ==> ms_log_unchanged(ms)
//@   ensures #off-kept [C18] ms_off(ms) == old(ms_off(ms))
//@   ensures #last [C18] len(entries) > 0 && old(eindex(entries[0])) + len(entries) - 1 >= old(ms_off(ms)) + 1 ==> ms_last(ms) == old(eindex(entries[0])) + len(entries) - 1
//@   ensures #kept [C18] forall p int, q int :: len(entries) > 0 && ms.ents.off <= p && p < ms.ents.off + (old(eindex(entries[0])) - old(ms_off(ms))) && p < ms.ents.off + len(ms.ents)
//@        && q == old(ms.ents.off) + (p - ms.ents.off) ==> elem(ms.ents, p) == old(elem(ms.ents, q))
//@   ensures #appended [C18] forall p int, q int :: len(entries) > 0 && old(eindex(entries[0])) + len(entries) - 1 >= old(ms_off(ms)) + 1
//@        && ms.ents.off + max(old(eindex(entries[0])), old(ms_off(ms)) + 1) - old(ms_off(ms)) <= p && p < ms.ents.off + len(ms.ents)
//@        && q == entries.off + ((p - ms.ents.off) + old(ms_off(ms)) - old(eindex(entries[0]))) ==> elem(ms.ents, p) == old(elem(entries, q))
//@   ensures #no-overwrite [C18] forall p int :: old(ms.ents.off) <= p && p < old(ms.ents.off) + old(len(ms.ents)) ==> elem(old(ms.ents), p) == old(elem(ms.ents, p))
//@   ensures #wf wf_ms(ms) && result == nil

//@ -- ApplySnapshot: a snapshot that is not newer than the stored one is refused and leaves the log alone (C09/C18); a newer one
//@ -- replaces the log by the single dummy entry at the snapshot's (index, term)
//@ func raft.MemoryStorage.ApplySnapshot [C18 C09 C05]
//@   requires wf_ms(ms) && snap != nil
//@   requires #a-arith snapIndex(snap) < 4611686018427387904
//@   frame raft.MemoryStorage: ms
//@   ensures #out-of-date-refused [C09 C18] old(snapIndex(ms.snapshot) != 0 && snapIndex(ms.snapshot) >= snapIndex(snap)) ==> result == ErrSnapOutOfDate && ms_log_unchanged(ms)
//@        && ms.snapshot == old(ms.snapshot)
//@   ensures #installed [C09 C18] !old(snapIndex(ms.snapshot) != 0 && snapIndex(ms.snapshot) >= snapIndex(snap)) ==> result == nil && len(ms.ents) == 1
//@        && ms_off(ms) == old(snapIndex(snap)) && eterm(ms.ents[0]) == old(snapTerm(snap)) && fresh(ms.ents) && ms.snapshot != nil && fresh(ms.snapshot)
//@   ensures #no-overwrite [C18] forall p int :: old(ms.ents.off) <= p && p < old(ms.ents.off) + old(len(ms.ents)) ==> elem(old(ms.ents), p) == old(elem(ms.ents, p))
//@   ensures #wf wf_ms(ms)

//@ -- CreateSnapshot: only forward (an index at or below the stored snapshot is refused and nothing changes), never past the stored
//@ -- log (usage precondition: the library panics otherwise), and the stored entries are not touched
//@ func raft.MemoryStorage.CreateSnapshot [C18 C09 C14]
//@   requires wf_ms(ms)
//@   requires #usage [C14] i <= snapIndex(ms.snapshot) || i <= ms_last(ms)
//@   requires #above-compaction [C14] i <= snapIndex(ms.snapshot) || i >= ms_off(ms)
//@   frame raft.MemoryStorage: ms
//@   ensures #out-of-date-refused [C09 C18] old(i <= snapIndex(ms.snapshot)) ==> result0 == nil && result1 == ErrSnapOutOfDate && ms.snapshot == old(ms.snapshot)
//@   ensures #created [C09 C18] !old(i <= snapIndex(ms.snapshot)) ==> result1 == nil && result0 != nil && fresh(result0) && snapIndex(ms.snapshot) == i
//@        && snapTerm(ms.snapshot) == old(eterm(ms_ent(ms, i))) && snapIndex(result0) == i && snapTerm(result0) == snapTerm(ms.snapshot)
//@   ensures #log-untouched [C18] ms_log_unchanged(ms) && wf_ms(ms)
//@ func raft.MemoryStorage.SetHardState [C07]
//@   requires ms != nil
//@   frame raft.MemoryStorage: ms
//@   ensures #stored [C07] result == nil && ms.hardState == st && ms.ents == old(ms.ents) && ms.snapshot == old(ms.snapshot)
//@ func raft.MemoryStorage.InitialState [C07]
//@   requires ms != nil
//@   ensures #hard-state [C07] result2 == nil && result0 == ms.hardState && result1 != nil

//@ func raft.MemoryStorage.Compact [C18 C14]
//@   requires wf_ms(ms)
//@   requires #usage [C14] compactIndex <= ms_last(ms)
//@   frame raft.MemoryStorage: ms
//@   ensures #stale [C18] compactIndex <= old(ms_off(ms)) ==> result == ErrCompacted && ms_log_unchanged(ms)
//@   ensures #compacted-ok [C18] compactIndex > old(ms_off(ms)) ==> result == nil
//@   ensures #compacted-off [C18] compactIndex > old(ms_off(ms)) ==> ms_off(ms) == compactIndex
//@   ensures #compacted-last [C18] compactIndex > old(ms_off(ms)) ==> ms_last(ms) == old(ms_last(ms))
//@   ensures #compacted-term [C18] compactIndex > old(ms_off(ms)) ==> eterm(ms.ents[0]) == old(eterm(ms_ent(ms, compactIndex)))
//@   ensures #kept [C18] forall p int, q int :: compactIndex > old(ms_off(ms)) && ms.ents.off + 1 <= p && p < ms.ents.off + len(ms.ents)
//@        && q == old(ms.ents.off) + (p - ms.ents.off) + (compactIndex - old(ms_off(ms))) ==> elem(ms.ents, p) == old(elem(ms.ents, q))
//@   ensures #no-overwrite [C18] forall p int :: old(ms.ents.off) <= p && p < old(ms.ents.off) + old(len(ms.ents)) ==> elem(old(ms.ents), p) == old(elem(ms.ents, p))
//@   ensures #wf wf_ms(ms)

//@ -- ------------------------------------------------------------------------------------------
//@ -- util.go / types.go helpers

//@ -- sums of proto.Size over array windows: sumarr(a, o, k) = psize(a[o]) + ... + psize(a[o+k-1]) (recursive definition
//@ -- in the engine); the lemmas below are proved by induction by the engine itself.
//@ lemma sum_split(a arr, o int, j int, k int) [C16 C18 C08]
//@   requires 0 <= j && j <= k
//@   ensures sumarr(a, o, k) == sumarr(a, o, j) + sumarr(a, o + j, k - j)
//@   decreases k - j
//@   use j < k ==> sum_split(a, o, j, k - 1)

//@ lemma sum_cong(a arr, ao int, b arr, bo int, k int) [C16 C18 C08]
//@   requires forall t int :: 0 <= t && t < k ==> a[ao + t] == b[bo + t]
//@   ensures sumarr(a, ao, k) == sumarr(b, bo, k)
//@   decreases k
//@   use k > 0 ==> sum_cong(a, ao, b, bo, k - 1)

//@ lemma sum_range(a arr, o int, k int) [C16 C18 C08]
//@   requires 0 <= k
//@   ensures 0 <= sumarr(a, o, k) && sumarr(a, o, k) <= k * 2147483648
//@   decreases k
//@   use k > 0 ==> sum_range(a, o, k - 1)

//@ func raft.entsSize [C16]
//@   pure
//@   ensures #sum result == sumsize(ents, len(ents))
//@   loop 1 invariant #acc 0 <= iter && iter <= len(ents) && size == sumsize(ents, iter)

//@ func raft.extend [C18 C16]
//@   use sum_cong(arrof(result), result.off, old(arrof(dst)), dst.off, len(dst))
//@   use sum_cong(arrof(result), result.off + len(dst), old(arrof(vals)), vals.off, len(vals))
//@   use sum_split(arrof(result), result.off, len(dst), len(result))
//@   ensures #sum [C16] sumsize(result, len(result)) == old(sumsize(dst, len(dst))) + old(sumsize(vals, len(vals)))
//@   ensures #concat [C18] len(result) == len(dst) + len(vals)
//@        && (forall p int, q int :: result.off <= p && p < result.off + len(dst) && q == dst.off + (p - result.off) ==> elem(result, p) == old(elem(dst, q)))
//@        && (forall p int, q int :: result.off + len(dst) <= p && p < result.off + len(result) && q == vals.off + (p - result.off - len(dst)) ==> elem(result, p) == old(elem(vals, q)))
//@   frame elems *raftpb.Entry: dst
//@   ensures #no-overwrite [C18] forall p int :: !(dst.off + len(dst) <= p && p < dst.off + cap(dst)) ==> elem(dst, p) == old(elem(dst, p))

//@ -- ------------------------------------------------------------------------------------------
//@ -- Storage interface: abstract storage model (DESIGN §3.1). Within one call into raft the storage does not change.
//@ -- E-storage-iface: an arbitrary Storage is assumed to satisfy these contracts; MemoryStorage is proved against the
//@ -- same statements over its representation (see above).

//@ ufun st_first(s Storage) uint64
//@ ufun st_last(s Storage) uint64
//@ ufun st_term(s Storage, i uint64) uint64
//@ ufun st_ent(s Storage, i uint64) *pb.Entry
//@ ufun st_snapindex(s Storage) uint64
//@ ufun st_snapterm(s Storage) uint64
//@ pred opaque wf_storage(s Storage) := !isnil(s) && st_first(s) >= 1 && st_last(s) + 1 >= st_first(s) && st_last(s) < 4611686018427387904
//@     && st_snapindex(s) + 1 >= st_first(s)
//@     && (forall i uint64 :: st_first(s) <= i && i <= st_last(s) ==> st_ent(s, i) != nil && eindex(st_ent(s, i)) == i && eterm(st_ent(s, i)) == st_term(s, i))
//@     && (forall i uint64, j uint64 :: st_first(s) - 1 <= i && i <= j && j <= st_last(s) ==> st_term(s, i) <= st_term(s, j))

//@ func raft.Storage.FirstIndex
//@   pure
//@   ensures result0 == st_first(self) && result1 == nil

//@ func raft.Storage.LastIndex
//@   pure
//@   ensures result0 == st_last(self) && result1 == nil

//@ func raft.Storage.Term
//@   pure
//@   ensures (i + 1 < st_first(self) ==> result0 == 0 && result1 == ErrCompacted)
//@        && (i > st_last(self) ==> result0 == 0 && result1 == ErrUnavailable)
//@        && (st_first(self) <= i + 1 && i <= st_last(self) ==> result0 == st_term(self, i) && result1 == nil)

//@ func raft.Storage.Entries
//@   requires #range lo < hi && hi <= st_last(self) + 1
//@   modifies alloc E$*raftpb.Entry
//@   ensures lo < st_first(self) ==> isnil(result0) && result1 == ErrCompacted
//@   ensures lo >= st_first(self) ==> result1 == nil && len(result0) >= 1 && len(result0) <= hi - lo && cap(result0) == len(result0)
//@        && (forall p int :: result0.off <= p && p < result0.off + len(result0) ==> elem(result0, p) == st_ent(self, lo + (p - result0.off)))
//@        && (len(result0) <= 1 || sumsize(result0, len(result0)) <= maxSize)
//@        && (len(result0) == hi - lo || sumsize(result0, len(result0)) + psize(st_ent(self, lo + len(result0))) > maxSize)

//@ -- E-compact (DESIGN §3.4): the storage snapshot covers the compacted prefix (st_snapindex + 1 >= st_first, in wf_storage) and
//@ -- describes applied, hence committed, state (st_snapindex <= committed, a glue conjunct of wf_raftLog)
//@ func raft.Storage.Snapshot
//@   modifies alloc F$raftpb.Snapshot, alloc F$raftpb.SnapshotMetadata, alloc F$raftpb.ConfState, alloc C$uint64, alloc C$bool, alloc E$uint8, alloc E$uint64
//@   ensures result1 == nil || result1 == ErrSnapshotTemporarilyUnavailable
//@   ensures result1 == nil ==> result0 != nil && fresh(result0) && snapIndex(result0) == st_snapindex(self) && snapTerm(result0) == st_snapterm(self)

//@ -- ------------------------------------------------------------------------------------------
//@ -- log.go: the combined stable+unstable view of a raftLog (DESIGN §3.1).
//@ --   first = pending snapshot index + 1, else storage first;  last = last unstable entry, else pending snapshot index, else storage last
//@ --   term(i): unstable entry if i >= offset; pending snapshot term at its index; storage term otherwise (on [first-1, last])

//@ spec log_first(l *raftLog) uint64 := l.unstable.snapshot != nil ? snapIndex(l.unstable.snapshot) + 1 : st_first(l.storage)
//@ spec log_last(l *raftLog) uint64 := len(l.unstable.entries) != 0 ? l.unstable.offset + len(l.unstable.entries) - 1
//@     : (l.unstable.snapshot != nil ? snapIndex(l.unstable.snapshot) : st_last(l.storage))
//@ spec opaque log_term(l *raftLog, i int) uint64 := i >= l.unstable.offset ? eterm(l.unstable.entries[i - l.unstable.offset])
//@     : ((l.unstable.snapshot != nil && snapIndex(l.unstable.snapshot) == i) ? snapTerm(l.unstable.snapshot) : st_term(l.storage, i))
//@ spec opaque log_ent(l *raftLog, i int) *pb.Entry := i >= l.unstable.offset ? l.unstable.entries[i - l.unstable.offset] : st_ent(l.storage, i)
//@ pred log_has(l *raftLog, i int) := log_first(l) <= i + 1 && i <= log_last(l)

//@ pred opaque wf_raftLog(l *raftLog) := l != nil && wf_unstable(&l.unstable) && wf_storage(l.storage)
//@     && l.applied <= l.applying && l.applying <= l.committed && l.committed <= log_last(l)
//@     && (l.unstable.snapshot == nil ==> st_first(l.storage) <= l.unstable.offset && l.unstable.offset <= st_last(l.storage) + 1 && st_first(l.storage) <= l.applied + 1)
//@     && (l.unstable.snapshot == nil && len(l.unstable.entries) == 0 ==> l.unstable.offset == st_last(l.storage) + 1)
//@     && st_snapindex(l.storage) <= l.committed
//@     && (l.unstable.snapshot != nil ==> l.unstable.offset == snapIndex(l.unstable.snapshot) + 1 && snapIndex(l.unstable.snapshot) <= l.committed)
//@     && (len(l.unstable.entries) > 0 && l.unstable.snapshot == nil ==> st_term(l.storage, l.unstable.offset - 1) <= eterm(l.unstable.entries[0]))
//@     && (len(l.unstable.entries) > 0 && l.unstable.snapshot != nil ==> snapTerm(l.unstable.snapshot) <= eterm(l.unstable.entries[0]))

//@ pred log_cursors_kept(l *raftLog) := l.committed == old(l.committed) && l.applying == old(l.applying) && l.applied == old(l.applied)
//@     && l.applyingEntsSize == old(l.applyingEntsSize) && l.applyingEntsPaused == old(l.applyingEntsPaused) && l.maxApplyingEntsSize == old(l.maxApplyingEntsSize)

//@ func raft.raftLog.firstIndex [C18]
//@   reveal wf_raftLog, wf_unstable, wf_storage
//@   pure
//@   requires wf_raftLog(l)
//@   ensures #view [C18] result == log_first(l)

//@ func raft.raftLog.lastIndex [C18]
//@   reveal wf_raftLog, wf_unstable, wf_storage
//@   pure
//@   requires wf_raftLog(l)
//@   ensures #view [C18] result == log_last(l)

//@ func raft.raftLog.term [C18 C03]
//@   reveal wf_raftLog, wf_unstable, wf_storage
//@   reveal log_term
//@   pure
//@   requires wf_raftLog(l)
//@   ensures #compacted [C18] i + 1 < log_first(l) ==> result0 == 0 && result1 == ErrCompacted
//@   -- F-3 (DESIGN §10): for i == MaxUint64 the test i+1 < firstIndex wraps and ErrCompacted is returned; no caller distinguishes the two errors
//@   ensures #unavailable [C18] i > log_last(l) && i < 18446744073709551615 ==> result0 == 0 && result1 == ErrUnavailable
//@   ensures #out-of-range [C18] i > log_last(l) ==> result0 == 0 && result1 != nil
//@   ensures #term [C18 C03] log_has(l, i) ==> result1 == nil && result0 == log_term(l, i)

//@ func raft.raftLog.zeroTermOnOutOfBounds [C14]
//@   reveal wf_raftLog, wf_unstable, wf_storage
//@   pure
//@   requires err == nil || err == ErrCompacted || err == ErrUnavailable
//@   ensures result == (err == nil ? t : 0)

//@ func raft.raftLog.matchTerm [C03 C18]
//@   reveal wf_raftLog, wf_unstable, wf_storage
//@   pure
//@   requires wf_raftLog(l)
//@   ensures #def [C03] result <==> (log_has(l, id.index) && log_term(l, id.index) == id.term)

//@ func raft.raftLog.lastEntryID [C18 C02]
//@   reveal wf_raftLog, wf_unstable, wf_storage
//@   pure
//@   requires wf_raftLog(l)
//@   ensures #view result.index == log_last(l) && result.term == log_term(l, log_last(l))

//@ func raft.raftLog.isUpToDate [C02 C04]
//@   reveal wf_raftLog, wf_unstable, wf_storage
//@   pure
//@   requires wf_raftLog(l)
//@   ensures #lexicographic [C02 C04] result <==> (their.term > log_term(l, log_last(l)) || (their.term == log_term(l, log_last(l)) && their.index >= log_last(l)))

//@ func raft.raftLog.commitTo [C06 C07 C14]
//@   reveal wf_raftLog, wf_unstable, wf_storage
//@   requires wf_raftLog(l)
//@   requires #in-range [C14 C06] tocommit <= log_last(l)
//@   frame raft.raftLog: l
//@   ensures #max [C06 C07] l.committed == max(old(l.committed), tocommit)
//@   ensures #rest l.applying == old(l.applying) && l.applied == old(l.applied) && l.applyingEntsSize == old(l.applyingEntsSize)
//@        && l.applyingEntsPaused == old(l.applyingEntsPaused) && l.maxApplyingEntsSize == old(l.maxApplyingEntsSize) && l.storage == old(l.storage)
//@   ensures #wf wf_raftLog(l)

//@ func raft.raftLog.maybeCommit [C04 C06 C07]
//@   reveal wf_raftLog, wf_unstable, wf_storage
//@   requires wf_raftLog(l)
//@   frame raft.raftLog: l
//@   ensures #own-term [C04 C06] result <==> (at.term != 0 && at.index > old(l.committed) && log_has(l, at.index) && log_term(l, at.index) == at.term)
//@   ensures #commit [C06 C07] l.committed == (result ? at.index : old(l.committed)) && l.committed >= old(l.committed)
//@   ensures #rest l.applying == old(l.applying) && l.applied == old(l.applied) && l.applyingEntsSize == old(l.applyingEntsSize)
//@        && l.applyingEntsPaused == old(l.applyingEntsPaused) && l.maxApplyingEntsSize == old(l.maxApplyingEntsSize) && l.storage == old(l.storage)
//@   ensures #wf wf_raftLog(l)

//@ func raft.raftLog.maxAppliableIndex [C08]
//@   reveal wf_raftLog, wf_unstable, wf_storage
//@   pure
//@   requires wf_raftLog(l)
//@   ensures #def [C08] result == (allowUnstable ? l.committed : min(l.committed, l.unstable.offset - 1))

//@ func raft.raftLog.hasNextOrInProgressSnapshot [C08]
//@   reveal wf_raftLog, wf_unstable, wf_storage
//@   pure
//@   requires l != nil
//@   ensures result <==> l.unstable.snapshot != nil

//@ func raft.raftLog.hasNextCommittedEnts [C08]
//@   reveal wf_raftLog, wf_unstable, wf_storage
//@   pure
//@   requires wf_raftLog(l)
//@   ensures #agrees [C08] result <==> (!l.applyingEntsPaused && l.unstable.snapshot == nil
//@        && l.applying < (allowUnstable ? l.committed : min(l.committed, l.unstable.offset - 1)))

//@ func raft.raftLog.appliedTo [C08 C07 C14]
//@   reveal wf_raftLog, wf_unstable, wf_storage
//@   requires wf_raftLog(l)
//@   requires #range [C14 C08] l.applied <= i && i <= l.committed
//@   frame raft.raftLog: l
//@   ensures #cursor [C08] l.applied == i && l.applying == max(old(l.applying), i) && l.committed == old(l.committed)
//@   ensures #size [C08] l.applyingEntsSize == (old(l.applyingEntsSize) > size ? old(l.applyingEntsSize) - size : 0)
//@        && (l.applyingEntsPaused <==> l.applyingEntsSize >= l.maxApplyingEntsSize) && l.maxApplyingEntsSize == old(l.maxApplyingEntsSize) && l.storage == old(l.storage)
//@   ensures #wf wf_raftLog(l)

//@ func raft.raftLog.acceptApplying [C08 C14]
//@   reveal wf_raftLog, wf_unstable, wf_storage
//@   requires wf_raftLog(l)
//@   requires #range [C14 C08] l.applying <= i && i <= l.committed && l.applyingEntsSize + size < 18446744073709551616
//@   frame raft.raftLog: l
//@   ensures #cursor [C08] l.applying == i && l.applied == old(l.applied) && l.committed == old(l.committed)
//@   ensures #size [C08] l.applyingEntsSize == old(l.applyingEntsSize) + size && l.maxApplyingEntsSize == old(l.maxApplyingEntsSize) && l.storage == old(l.storage)
//@        && (l.applyingEntsPaused <==> (l.applyingEntsSize >= l.maxApplyingEntsSize || i < (allowUnstable ? l.committed : min(l.committed, l.unstable.offset - 1))))
//@   ensures #wf wf_raftLog(l)

//@ func raft.raftLog.mustCheckOutOfBounds [C18 C14]
//@   reveal wf_raftLog, wf_unstable, wf_storage
//@   pure
//@   requires wf_raftLog(l)
//@   requires #bounds [C14] lo <= hi && hi <= log_last(l) + 1
//@   ensures #compacted [C18] (lo < log_first(l) ==> result == ErrCompacted) && (lo >= log_first(l) ==> result == nil)

//@ func raft.raftLog.slice [C18 C16 C08 C14]
//@   frame elems *raftpb.Entry:
//@   reveal wf_raftLog, wf_unstable, wf_storage, log_term, log_ent
//@   reveal termsMonotone
//@   requires wf_raftLog(l)
//@   requires #bounds [C14] lo <= hi && hi <= log_last(l) + 1
//@   ensures #compacted [C18] lo < log_first(l) ==> isnil(result0) && result1 == ErrCompacted
//@   ensures #empty [C18] lo >= log_first(l) && lo == hi ==> isnil(result0) && result1 == nil
//@   ensures #run [C18 C08] lo >= log_first(l) && lo < hi ==> result1 == nil && len(result0) >= 1 && len(result0) <= hi - lo
//@   ensures #run-stable [C18 C08] lo >= log_first(l) && lo < hi ==> (forall p int, i int :: result0.off <= p && p < result0.off + len(result0) && i == lo + (p - result0.off) && i < l.unstable.offset
//@        ==> elem(result0, p) == st_ent(l.storage, i))
//@   ensures #run-unstable [C18 C08] lo >= log_first(l) && lo < hi ==> (forall p int, i int, q int :: result0.off <= p && p < result0.off + len(result0) && i == lo + (p - result0.off) && i >= l.unstable.offset
//@        && q == l.unstable.entries.off + (i - l.unstable.offset) ==> elem(result0, p) == old(elem(l.unstable.entries, q)))
//@   ensures #run-view [C18 C08] lo >= log_first(l) && lo < hi ==> (forall p int :: {elem(result0, p)} result0.off <= p && p < result0.off + len(result0) ==> elem(result0, p) == log_ent(l, lo + (p - result0.off)))
//@   ensures #budget [C16 C18] lo >= log_first(l) && lo < hi ==> (len(result0) <= 1 || sumsize(result0, len(result0)) <= maxSize)
//@   ensures #no-overwrite [C18] forall p int :: l.unstable.entries.off <= p && p < l.unstable.entries.off + len(l.unstable.entries) ==> elem(l.unstable.entries, p) == old(elem(l.unstable.entries, p))
//@   ensures #view-kept [C18] forall i int :: log_has(l, i) ==> log_term(l, i) == old(log_term(l, i))
//@   ensures #wf wf_raftLog(l)

//@ func raft.raftLog.entries [C18 C16]
//@   reveal wf_raftLog, wf_unstable, wf_storage
//@   requires wf_raftLog(l)
//@   ensures #past-end i > log_last(l) ==> isnil(result0) && result1 == nil
//@   ensures #compacted i <= log_last(l) && i < log_first(l) ==> isnil(result0) && result1 == ErrCompacted
//@   ensures #run [C18 C16] i <= log_last(l) && i >= log_first(l) ==> result1 == nil && len(result0) >= 1 && len(result0) <= log_last(l) + 1 - i
//@        && (len(result0) <= 1 || sumsize(result0, len(result0)) <= maxSize)
//@   ensures #run-stable [C18] i <= log_last(l) && i >= log_first(l) ==> (forall p int, j int :: result0.off <= p && p < result0.off + len(result0) && j == i + (p - result0.off) && j < l.unstable.offset
//@        ==> elem(result0, p) == st_ent(l.storage, j))
//@   ensures #run-unstable [C18] i <= log_last(l) && i >= log_first(l) ==> (forall p int, j int, q int :: result0.off <= p && p < result0.off + len(result0) && j == i + (p - result0.off) && j >= l.unstable.offset
//@        && q == l.unstable.entries.off + (j - l.unstable.offset) ==> elem(result0, p) == old(elem(l.unstable.entries, q)))
//@   ensures #view-kept [C18] forall i int :: log_has(l, i) ==> log_term(l, i) == old(log_term(l, i))
//@   ensures #wf wf_raftLog(l)

//@ func raft.raftLog.findConflict [C03 C01]
//@   reveal wf_raftLog, wf_unstable, wf_storage
//@   pure
//@   requires wf_raftLog(l)
//@   requires #ents forall p int :: ents.off <= p && p < ents.off + len(ents) ==> elem(ents, p) != nil && eindex(elem(ents, p)) >= 1
//@   requires #contiguous len(ents) > 0 ==> contiguous(ents)
//@   ensures #prev-matched [C03] result != 0 && result > eindex(ents[0]) ==> result <= eindex(ents[0]) + len(ents) - 1
//@        && matchesAt(l, result - 1, eterm(elem(ents, ents.off + (result - 1 - eindex(ents[0])))))
//@   ensures #first-or-later result != 0 ==> result >= eindex(ents[0])
//@   ensures #none [C03] result == 0 ==> (forall p int :: ents.off <= p && p < ents.off + len(ents) ==>
//@             log_has(l, eindex(elem(ents, p))) && log_term(l, eindex(elem(ents, p))) == eterm(elem(ents, p)))
//@   ensures #first-mismatch [C03 C01] result != 0 ==> (exists p int :: ents.off <= p && p < ents.off + len(ents) && result == eindex(elem(ents, p))
//@             && !(log_has(l, result) && log_term(l, result) == eterm(elem(ents, p)))
//@             && (forall q int :: ents.off <= q && q < p ==> log_has(l, eindex(elem(ents, q))) && log_term(l, eindex(elem(ents, q))) == eterm(elem(ents, q))))
//@   loop 1 invariant #matched 0 <= iter && iter <= len(ents) && (forall q int :: ents.off <= q && q < ents.off + iter ==>
//@             log_has(l, eindex(elem(ents, q))) && log_term(l, eindex(elem(ents, q))) == eterm(elem(ents, q)))

//@ func raft.raftLog.append [C03 C01 C14]
//@   reveal wf_raftLog, wf_unstable, wf_storage
//@   reveal log_term, log_ent
//@   requires wf_raftLog(l)
//@   requires #ents len(ents) > 0 ==> contiguous(ents) && termsMonotone(ents) && eindex(ents[0]) + len(ents) < 9223372036854775808 && eindex(ents[0]) >= 1
//@   requires #above-commit [C01 C14] len(ents) > 0 ==> eindex(ents[0]) - 1 >= l.committed
//@   requires #no-gap [C14] len(ents) > 0 ==> eindex(ents[0]) <= log_last(l) + 1
//@   requires #seam len(ents) > 0 ==> log_term(l, eindex(ents[0]) - 1) <= eterm(ents[0])
//@   frame raft.raftLog: l
//@   frame raft.unstable: &l.unstable
//@   ensures #last [C03] result == log_last(l) && (len(ents) > 0 ==> log_last(l) == old(eindex(ents[0])) + len(ents) - 1) && (len(ents) == 0 ==> log_last(l) == old(log_last(l)))
//@   ensures #prefix-stable [C01 C03] forall i int :: i < (len(ents) > 0 ? old(eindex(ents[0])) : old(log_last(l)) + 1) && old(log_has(l, i)) ==> log_has(l, i) && log_term(l, i) == old(log_term(l, i))
//@   ensures #appended [C03] forall p int, i int :: ents.off <= p && p < ents.off + len(ents) && i == old(eindex(ents[0])) + (p - ents.off) ==> log_has(l, i) && log_term(l, i) == old(eterm(elem(ents, p)))
//@   ensures #appended-at [C03] forall i int :: {log_term(l, i)} len(ents) > 0 && old(eindex(ents[0])) <= i && i < old(eindex(ents[0])) + len(ents)
//@        ==> log_has(l, i) && log_term(l, i) == old(eterm(elem(ents, ents.off + (i - eindex(ents[0])))))
//@   ensures #appended-entries-at [C03 C20] forall i int :: {log_ent(l, i)} len(ents) > 0 && old(eindex(ents[0])) <= i && i < old(eindex(ents[0])) + len(ents)
//@        ==> log_ent(l, i) == old(elem(ents, ents.off + (i - eindex(ents[0]))))
//@   ensures #cursors log_cursors_kept(l) && l.storage == old(l.storage)
//@   ensures #wf wf_raftLog(l)

//@ -- a logSlice as received in a MsgApp (E-msg-wf, DESIGN §3.4): contiguous from prev.index+1, terms non-decreasing from prev.term
//@ pred validSlice(a logSlice) := entriesFrom(a.entries, a.prev.index + 1) && termsMonotone(a.entries)
//@     && (len(a.entries) > 0 ==> a.prev.term <= eterm(a.entries[0])) && a.prev.index + len(a.entries) < 4611686018427387904
//@ pred matchesAt(l *raftLog, i int, t int) := log_has(l, i) && log_term(l, i) == t

//@ func raft.raftLog.maybeAppend [C03 C01 C06 C14]
//@   reveal wf_raftLog, wf_unstable, wf_storage
//@   reveal termsMonotone
//@   requires wf_raftLog(l)
//@   requires #valid validSlice(a)
//@   -- E-leader-complete (DESIGN §3.4): an append stepped at the current term never conflicts with the committed prefix
//@   requires #no-committed-conflict [C14] matchesAt(l, a.prev.index, a.prev.term) ==> (forall p int :: a.entries.off <= p && p < a.entries.off + len(a.entries)
//@        && eindex(elem(a.entries, p)) <= l.committed ==> matchesAt(l, eindex(elem(a.entries, p)), eterm(elem(a.entries, p))))
//@   frame raft.raftLog: l
//@   frame raft.unstable: &l.unstable
//@   after raft.raftLog.findConflict assert #ci-position result != 0 ==> result > a.prev.index && result <= a.prev.index + len(a.entries)
//@        && eindex(elem(a.entries, a.entries.off + (result - a.prev.index - 1))) == result
//@   after raft.raftLog.findConflict assert #ci-none result == 0 ==> a.prev.index + len(a.entries) <= log_last(l)
//@   after raft.raftLog.findConflict assert #ci-prev result != 0 ==> log_has(l, result - 1) && log_term(l, result - 1) <= eterm(elem(a.entries, a.entries.off + (result - a.prev.index - 1)))
//@   after raft.raftLog.append assert #appended-last result == a.prev.index + len(a.entries)
//@   ensures #reject [C03] !old(matchesAt(l, a.prev.index, a.prev.term)) ==> !ok && lastnewi == 0 && log_cursors_kept(l)
//@        && l.unstable.entries == old(l.unstable.entries) && l.unstable.offset == old(l.unstable.offset) && l.unstable.offsetInProgress == old(l.unstable.offsetInProgress)
//@   ensures #accept [C03] old(matchesAt(l, a.prev.index, a.prev.term)) ==> ok && lastnewi == a.prev.index + len(a.entries)
//@   ensures #commit-clamp [C06 C07] ok ==> l.committed == max(old(l.committed), min(committed, lastnewi))
//@   ensures #lastnew-in-log [C06] ok ==> lastnewi <= log_last(l)
//@   ensures #commit-monotone [C07 C06] l.committed >= old(l.committed) && l.committed <= log_last(l)
//@   ensures #matches-leader [C03] ok ==> (forall p int, i int :: a.entries.off <= p && p < a.entries.off + len(a.entries) && i == a.prev.index + 1 + (p - a.entries.off)
//@        ==> log_has(l, i) && log_term(l, i) == old(eterm(elem(a.entries, p))))
//@   ensures #committed-prefix-stable [C01 C03] forall i int :: i <= old(l.committed) && old(log_has(l, i)) ==> log_has(l, i) && log_term(l, i) == old(log_term(l, i))
//@   ensures #rest l.applying == old(l.applying) && l.applied == old(l.applied) && l.storage == old(l.storage) && l.unstable.snapshot == old(l.unstable.snapshot)
//@   ensures #wf wf_raftLog(l)

//@ func raft.raftLog.findConflictByTerm [C03]
//@   reveal wf_raftLog, wf_unstable, wf_storage
//@   pure
//@   requires wf_raftLog(l)
//@   ensures #bound result0 <= index
//@   ensures #term-known result1 != 0 ==> log_has(l, result0) && result1 == log_term(l, result0) && result1 <= term
//@   loop 1 invariant #down index <= entry(index)
//@   loop 1 decreases index

//@ func raft.raftLog.nextUnstableEnts [C05 C18]
//@   reveal wf_raftLog, wf_unstable, wf_storage
//@   pure
//@   requires wf_raftLog(l)
//@   ensures #suffix (l.unstable.offsetInProgress == l.unstable.offset + len(l.unstable.entries) ==> isnil(result))
//@        && (l.unstable.offsetInProgress < l.unstable.offset + len(l.unstable.entries) ==> result.arr == l.unstable.entries.arr
//@              && result.off == l.unstable.entries.off + (l.unstable.offsetInProgress - l.unstable.offset)
//@              && len(result) == len(l.unstable.entries) - (l.unstable.offsetInProgress - l.unstable.offset))

//@ func raft.raftLog.hasNextUnstableEnts [C05]
//@   reveal wf_raftLog, wf_unstable, wf_storage
//@   pure
//@   requires wf_raftLog(l)
//@   ensures result <==> l.unstable.offsetInProgress < l.unstable.offset + len(l.unstable.entries)

//@ func raft.raftLog.hasNextOrInProgressUnstableEnts [C05]
//@   reveal wf_raftLog, wf_unstable, wf_storage
//@   pure
//@   requires l != nil
//@   ensures result <==> len(l.unstable.entries) > 0

//@ func raft.raftLog.nextCommittedEnts [C08 C01 C14]
//@   reveal wf_raftLog, wf_unstable, wf_storage
//@   requires wf_raftLog(l)
//@   requires #size-accounting [C14] l.applyingEntsPaused || l.applyingEntsSize < l.maxApplyingEntsSize
//@   ensures #blocked [C08] (l.applyingEntsPaused || l.unstable.snapshot != nil
//@        || l.applying >= (allowUnstable ? l.committed : min(l.committed, l.unstable.offset - 1))) ==> isnil(ents)
//@   ensures #batch [C08 C01] !(l.applyingEntsPaused || l.unstable.snapshot != nil
//@        || l.applying >= (allowUnstable ? l.committed : min(l.committed, l.unstable.offset - 1)))
//@        ==> len(ents) >= 1 && l.applying + len(ents) <= (allowUnstable ? l.committed : min(l.committed, l.unstable.offset - 1))
//@   ensures #from-view-stable [C08 C01] forall p int, i int :: ents.off <= p && p < ents.off + len(ents) && i == l.applying + 1 + (p - ents.off) && i < l.unstable.offset
//@        ==> elem(ents, p) == st_ent(l.storage, i)
//@   ensures #from-view-unstable [C08 C01] forall p int, i int, q int :: ents.off <= p && p < ents.off + len(ents) && i == l.applying + 1 + (p - ents.off) && i >= l.unstable.offset
//@        && q == l.unstable.entries.off + (i - l.unstable.offset) ==> elem(ents, p) == old(elem(l.unstable.entries, q))
//@   ensures #budget [C08 C16] len(ents) <= 1 || sumsize(ents, len(ents)) <= l.maxApplyingEntsSize - l.applyingEntsSize
//@   ensures #unchanged log_cursors_kept(l) && l.unstable.entries == old(l.unstable.entries) && l.unstable.offset == old(l.unstable.offset)
//@   ensures #wf wf_raftLog(l)

//@ func raft.raftLog.stableTo [C05 C18]
//@   reveal wf_raftLog, wf_unstable, wf_storage
//@   reveal termsMonotone
//@   requires wf_raftLog(l)
//@   -- E-ready-contract: an acknowledgement that matches the unstable log is only delivered after those entries reached storage
//@   requires #persisted (id.index >= l.unstable.offset && id.index < l.unstable.offset + len(l.unstable.entries)
//@        && eterm(l.unstable.entries[id.index - l.unstable.offset]) == id.term && l.unstable.snapshot == nil) ==>
//@        (st_last(l.storage) >= id.index && (id.index + 1 == l.unstable.offset + len(l.unstable.entries) ==> st_last(l.storage) == id.index)
//@         && st_term(l.storage, id.index) == id.term)
//@   requires #snapshot-first l.unstable.snapshot != nil ==> id.index < l.unstable.offset || !(id.index < l.unstable.offset + len(l.unstable.entries) && eterm(l.unstable.entries[id.index - l.unstable.offset]) == id.term)
//@   frame raft.raftLog: l
//@   frame raft.unstable: &l.unstable
//@   ensures #cursors log_cursors_kept(l) && l.storage == old(l.storage)
//@   ensures #last-kept [C18] log_last(l) == old(log_last(l))
//@   ensures #wf wf_raftLog(l)

//@ func raft.raftLog.acceptUnstable [C05]
//@   reveal wf_raftLog, wf_unstable, wf_storage
//@   requires wf_raftLog(l)
//@   frame raft.raftLog: l
//@   frame raft.unstable: &l.unstable
//@   ensures #in-progress (len(l.unstable.entries) > 0 ==> l.unstable.offsetInProgress == l.unstable.offset + len(l.unstable.entries))
//@        && (l.unstable.snapshot != nil ==> l.unstable.snapshotInProgress)
//@   ensures #kept l.unstable.entries == old(l.unstable.entries) && l.unstable.offset == old(l.unstable.offset) && l.unstable.snapshot == old(l.unstable.snapshot)
//@        && log_cursors_kept(l) && l.storage == old(l.storage)
//@   ensures #wf wf_raftLog(l)

//@ func raft.raftLog.restore [C09 C07 C18]
//@   reveal wf_raftLog, wf_unstable, wf_storage
//@   reveal log_term
//@   requires wf_raftLog(l) && s != nil
//@   requires #above-commit [C09 C07] snapIndex(s) > l.committed && snapIndex(s) < 4611686018427387904
//@   frame raft.raftLog: l
//@   frame raft.unstable: &l.unstable
//@   ensures #installed [C09] l.committed == old(snapIndex(s)) && log_first(l) == old(snapIndex(s)) + 1 && log_last(l) == old(snapIndex(s))
//@        && len(l.unstable.entries) == 0 && l.unstable.snapshot != nil && snapIndex(l.unstable.snapshot) == old(snapIndex(s)) && snapTerm(l.unstable.snapshot) == old(snapTerm(s))
//@        && !l.unstable.snapshotInProgress
//@   ensures #cursors-kept [C08 C09] l.applying == old(l.applying) && l.applied == old(l.applied) && l.storage == old(l.storage)
//@   ensures #commit-monotone [C07] l.committed > old(l.committed)
//@   ensures #wf wf_raftLog(l)

//@ -- ------------------------------------------------------------------------------------------
//@ -- raft.go: node state

//@ pred msgs_nonnil(ms []*pb.Message) := forall p int :: ms.off <= p && p < ms.off + len(ms) ==> elem(ms, p) != nil
//@ pred wf_raft(r *raft) := r != nil && r.raftLog != nil && wf_raftLog(r.raftLog) && wf_readOnly(r.readOnly) && wf_trk(&r.trk)
//@     && msgs_nonnil(r.pendingReadIndexMessages) && trk_distinct(&r.trk)
//@     && r.state <= 3 && r.id != 0 && r.electionTimeout >= 1 && r.heartbeatTimeout >= 1 && r.electionTimeout <= 1073741824
//@     && r.electionElapsed >= 0 && r.electionElapsed <= 2147483648 && r.heartbeatElapsed >= 0 && r.heartbeatElapsed <= 2147483648
//@     && msgs_nonnil(r.msgs) && msgs_nonnil(r.msgsAfterAppend) && r.Term < 9223372036854775808
//@     && (r.msgs.arr != r.msgsAfterAppend.arr || r.msgs.arr == 0) && (r.msgs.arr != r.pendingReadIndexMessages.arr || r.msgs.arr == 0)
//@     && (r.msgsAfterAppend.arr != r.pendingReadIndexMessages.arr || r.msgsAfterAppend.arr == 0)
//@     && (r.state == StateLeader <==> r.lead == r.id) && (r.state == StatePreCandidate ==> r.preVote) && r.leadTransferee != r.id

//@ -- C07: the hard state (Term, Vote, commit) moves forward only: two-state invariant proved for every function that can write it
//@ pred hs_monotone(r *raft) := r.Term >= old(r.Term) && (r.Term == old(r.Term) ==> (r.Vote == old(r.Vote) || old(r.Vote) == 0))
//@     && r.raftLog.committed >= old(r.raftLog.committed) && r.raftLog == old(r.raftLog)
//@     && r.trk.MaxInflight == old(r.trk.MaxInflight) && r.trk.MaxInflightBytes == old(r.trk.MaxInflightBytes)

//@ pred isRespType(t pb.MessageType) := t == pb.MsgAppResp || t == pb.MsgVoteResp || t == pb.MsgPreVoteResp
//@ pred isVoteType(t pb.MessageType) := t == pb.MsgVote || t == pb.MsgVoteResp || t == pb.MsgPreVote || t == pb.MsgPreVoteResp

//@ func raft.raft.send [C05 C07 C14]
//@   frame elems *raftpb.Message: r.msgs, r.msgsAfterAppend
//@   requires #wf wf_raft(r) && m != nil
//@   requires #term-set [C14] isVoteType(m.GetType()) ==> m.GetTerm() != 0
//@   requires #term-unset [C14] !isVoteType(m.GetType()) ==> m.GetTerm() == 0
//@   requires #not-self [C14] !isRespType(m.GetType()) ==> m.GetTo() != r.id
//@   frame raft.raft: r
//@   frame raftpb.Message: m
//@   ensures #reads-kept [C11] old(reads_wf(r)) ==> reads_wf(r)
//@   ensures #routing-deferred [C05] isRespType(old(m.GetType())) ==> len(r.msgsAfterAppend) == old(len(r.msgsAfterAppend)) + 1
//@        && r.msgsAfterAppend[old(len(r.msgsAfterAppend))] == m && r.msgs == old(r.msgs)
//@   ensures #routing-immediate [C05] !isRespType(old(m.GetType())) ==> len(r.msgs) == old(len(r.msgs)) + 1
//@        && r.msgs[old(len(r.msgs))] == m && r.msgsAfterAppend == old(r.msgsAfterAppend)
//@   ensures #others-kept [C05] (forall i int, q int :: 0 <= i && i < old(len(r.msgs)) && q == old(r.msgs.off) + i ==> elem(r.msgs, r.msgs.off + i) == old(elem(r.msgs, q)))
//@        && (forall i int, q int :: 0 <= i && i < old(len(r.msgsAfterAppend)) && q == old(r.msgsAfterAppend.off) + i ==> elem(r.msgsAfterAppend, r.msgsAfterAppend.off + i) == old(elem(r.msgsAfterAppend, q)))
//@   ensures #term-stamp [C07] m.GetTerm() == (isVoteType(old(m.GetType())) || old(m.GetType()) == pb.MsgProp || old(m.GetType()) == pb.MsgReadIndex ? old(m.GetTerm()) : r.Term)
//@   ensures #from m.GetFrom() == (old(m.GetFrom()) == 0 ? r.id : old(m.GetFrom())) && m.GetType() == old(m.GetType()) && m.GetTo() == old(m.GetTo())
//@   ensures #rest raft_kept_but_msgs(r)
//@   ensures #wf wf_raft(r) && hs_monotone(r)

//@ -- ------------------------------------------------------------------------------------------
//@ -- read_only.go: ReadIndex bookkeeping. View: confirmedReads (number of requests already released), the queue
//@ -- unconfirmedReads (request i of the queue has position confirmedReads+i+1), acks (highest position acknowledged per voter).

//@ pred opaque wf_readOnly(ro *readOnly) := ro != nil && ro.acks != nil && ro.confirmedReads + len(ro.unconfirmedReads) < 4611686018427387904
//@     && (forall p int :: ro.unconfirmedReads.off <= p && p < ro.unconfirmedReads.off + len(ro.unconfirmedReads) ==> elem(ro.unconfirmedReads, p) != nil && elem(ro.unconfirmedReads, p).req != nil)
//@     && (forall id uint64 :: has(ro.acks, id) ==> ro.acks[id] <= ro.confirmedReads + len(ro.unconfirmedReads))

//@ func raft.newReadOnly [C11]
//@   reveal wf_readOnly
//@   ensures #fresh fresh(result) && wf_readOnly(result) && result.option == option && result.confirmedReads == 0 && len(result.unconfirmedReads) == 0 && len(result.acks) == 0

//@ func raft.readOnly.AckedIndex [C11 C12]
//@   reveal wf_readOnly
//@   pure
//@   implements quorum.AckedIndexer.AckedIndex
//@   requires ro != nil
//@   ensures result1 == has(ro.acks, voterID) && result0 == (has(ro.acks, voterID) ? ro.acks[voterID] : 0)

//@ func raft.readOnly.addRequest [C11]
//@   reveal wf_readOnly
//@   requires wf_readOnly(ro) && req != nil
//@   requires #a-arith ro.confirmedReads + len(ro.unconfirmedReads) + 1 < 4611686018427387904
//@   frame raft.readOnly: ro
//@   ensures #queued [C11] len(ro.unconfirmedReads) == old(len(ro.unconfirmedReads)) + 1
//@        && ro.unconfirmedReads[old(len(ro.unconfirmedReads))].req == req && ro.unconfirmedReads[old(len(ro.unconfirmedReads))].index == commitIndex
//@        && fresh(ro.unconfirmedReads[old(len(ro.unconfirmedReads))])
//@   ensures #kept [C11] (forall i int, q int :: 0 <= i && i < old(len(ro.unconfirmedReads)) && q == old(ro.unconfirmedReads.off) + i ==> elem(ro.unconfirmedReads, ro.unconfirmedReads.off + i) == old(elem(ro.unconfirmedReads, q)))
//@        && ro.confirmedReads == old(ro.confirmedReads) && ro.acks == old(ro.acks) && ro.option == old(ro.option)
//@   ensures #kept-reqs [C11] forall p int :: {elem(ro.unconfirmedReads, p)} ro.unconfirmedReads.off <= p && p < ro.unconfirmedReads.off + old(len(ro.unconfirmedReads)) ==>
//@        elem(ro.unconfirmedReads, p) == oldelem(ro.unconfirmedReads, old(ro.unconfirmedReads.off) + (p - ro.unconfirmedReads.off))
//@   ensures #wf wf_readOnly(ro)

//@ func raft.readOnly.heartbeatCtx [C11]
//@   reveal wf_readOnly
//@   requires wf_readOnly(ro)
//@   ensures #position [C11] (len(ro.unconfirmedReads) == 0 ==> isnil(result))
//@        && (len(ro.unconfirmedReads) > 0 ==> len(result) == 8 && fresh(result) && le64(result) == ro.confirmedReads + len(ro.unconfirmedReads))

//@ func raft.readOnly.recvAck [C11 C14]
//@   reveal wf_readOnly
//@   requires wf_readOnly(ro)
//@   -- E-readack (DESIGN §3.4): a non-empty context was produced by heartbeatCtx of this leader: 8 bytes, a position not beyond the queue
//@   requires #ctx [C14] len(ctx) != 0 ==> len(ctx) >= 8 && le64(ctx) <= ro.confirmedReads + len(ro.unconfirmedReads)
//@   ensures #max [C11] (len(ctx) != 0 ==> has(ro.acks, from) && ro.acks[from] == max(old(has(ro.acks, from)) ? old(ro.acks[from]) : 0, old(le64(ctx))))
//@        && (len(ctx) == 0 ==> has(ro.acks, from) == old(has(ro.acks, from)) && ro.acks[from] == old(ro.acks[from]))
//@   ensures #others [C11] forall id uint64 :: id != from ==> has(ro.acks, id) == old(has(ro.acks, id)) && ro.acks[id] == old(ro.acks[id])
//@   ensures #wf wf_readOnly(ro)

//@ spec roAck(ro *readOnly, id uint64) uint64 := has(ro.acks, id) ? ro.acks[id] : 0
//@ -- k is the largest read position acknowledged by a majority of every non-empty voter set
//@ pred roQuorumPos(ro *readOnly, c quorum.JointConfig, k int) :=
//@     ((len(c[0]) > 0 ==> k == 0 || cnt(c[0], id :: roAck(ro, id) >= k) >= len(c[0]) / 2 + 1) && (len(c[1]) > 0 ==> k == 0 || cnt(c[1], id :: roAck(ro, id) >= k) >= len(c[1]) / 2 + 1)
//@      && ((len(c[0]) > 0 && cnt(c[0], id :: roAck(ro, id) > k) < len(c[0]) / 2 + 1) || (len(c[1]) > 0 && cnt(c[1], id :: roAck(ro, id) > k) < len(c[1]) / 2 + 1)))

//@ func raft.readOnly.maybeAdvance [C11 C12 C14]
//@   reveal wf_readOnly
//@   requires wf_readOnly(ro)
//@   requires #non-empty-config [C14] len(c[0]) > 0 || len(c[1]) > 0
//@   frame raft.readOnly: ro
//@   after quorum.JointConfig.CommittedIndex assume cnt_mono(c[0], id :: ack(asiface(ro, "*raft.readOnly"), id) >= result, id :: roAck(ro, id) >= result)
//@        && cnt_mono(c[1], id :: ack(asiface(ro, "*raft.readOnly"), id) >= result, id :: roAck(ro, id) >= result)
//@        && cnt_mono(c[0], id :: roAck(ro, id) > result, id :: ack(asiface(ro, "*raft.readOnly"), id) > result)
//@        && cnt_mono(c[1], id :: roAck(ro, id) > result, id :: ack(asiface(ro, "*raft.readOnly"), id) > result)
//@   ensures #release [C11 C12] exists k int :: old(roQuorumPos(ro, c, k)) && ro.confirmedReads == max(old(ro.confirmedReads), k)
//@        && len(result) == ro.confirmedReads - old(ro.confirmedReads) && len(ro.unconfirmedReads) == old(len(ro.unconfirmedReads)) - len(result)
//@   ensures #prefix [C11] (len(result) > 0 ==> result.arr == old(ro.unconfirmedReads.arr) && result.off == old(ro.unconfirmedReads.off))
//@        && (len(result) > 0 ==> ro.unconfirmedReads.arr == old(ro.unconfirmedReads.arr) && ro.unconfirmedReads.off == old(ro.unconfirmedReads.off) + len(result))
//@        && (len(result) == 0 ==> ro.unconfirmedReads == old(ro.unconfirmedReads))
//@   ensures #rest ro.acks == old(ro.acks) && ro.option == old(ro.option)
//@   ensures #wf wf_readOnly(ro)

//@ lemma pay_range(a arr, o int, k int, d arr) [C16 C20]
//@   requires 0 <= k && (forall e int :: 0 <= d[e] && d[e] <= 2147483648)
//@   ensures 0 <= sumpayarr(a, o, k, d) && sumpayarr(a, o, k, d) <= k * 2147483648
//@   decreases k
//@   use k > 0 ==> pay_range(a, o, k - 1, d)

//@ func raft.payloadSize [C16]
//@   pure
//@   ensures result == (e == nil ? 0 : len(e.Data))

//@ func raft.payloadsSize [C16 C20]
//@   pure
//@   ensures #sum result == sumpay(ents, len(ents))
//@   loop 1 invariant #acc 0 <= iter && iter <= len(ents) && s == sumpay(ents, iter)


//@ -- ------------------------------------------------------------------------------------------
//@ -- raft.go leaf functions

//@ pred raft_kept_but_msgs(r *raft) := r.Term == old(r.Term) && r.Vote == old(r.Vote) && r.state == old(r.state) && r.lead == old(r.lead) && r.id == old(r.id)
//@     && r.step == old(r.step) && r.tick == old(r.tick) && r.electionElapsed == old(r.electionElapsed) && r.heartbeatElapsed == old(r.heartbeatElapsed)
//@     && (r.msgs.arr == old(r.msgs.arr) || fresh(r.msgs.arr)) && (r.msgsAfterAppend.arr == old(r.msgsAfterAppend.arr) || fresh(r.msgsAfterAppend.arr))
//@     && r.raftLog == old(r.raftLog) && r.readOnly == old(r.readOnly) && r.leadTransferee == old(r.leadTransferee) && r.pendingConfIndex == old(r.pendingConfIndex)
//@     && r.uncommittedSize == old(r.uncommittedSize) && r.electionElapsed == old(r.electionElapsed) && r.heartbeatElapsed == old(r.heartbeatElapsed)
//@     && r.isLearner == old(r.isLearner) && r.randomizedElectionTimeout == old(r.randomizedElectionTimeout)

//@ pred raft_kept_but_isLearner(r *raft) := r.Term == old(r.Term) && r.Vote == old(r.Vote) && r.state == old(r.state) && r.lead == old(r.lead) && r.id == old(r.id)
//@     && r.step == old(r.step) && r.tick == old(r.tick) && r.electionElapsed == old(r.electionElapsed) && r.heartbeatElapsed == old(r.heartbeatElapsed)
//@     && r.raftLog == old(r.raftLog) && r.readOnly == old(r.readOnly) && r.leadTransferee == old(r.leadTransferee) && r.pendingConfIndex == old(r.pendingConfIndex)
//@     && r.uncommittedSize == old(r.uncommittedSize) && r.randomizedElectionTimeout == old(r.randomizedElectionTimeout)

//@ func raft.raft.hasLeader
//@   pure
//@   requires r != nil
//@   ensures result <==> r.lead != 0

//@ func raft.raft.hardState [C07]
//@   requires r != nil && r.raftLog != nil
//@   ensures #exposes-state [C07] fresh(result) && result.GetTerm() == r.Term && result.GetVote() == r.Vote && result.GetCommit() == r.raftLog.committed

//@ func raft.raft.promotable [C10 C17]
//@   pure
//@   reveal wf_trk
//@   requires wf_raft(r)
//@   ensures #def result <==> (has(r.trk.Progress, r.id) && !r.trk.Progress[r.id].IsLearner && r.raftLog.unstable.snapshot == nil)

//@ func raft.raft.pastElectionTimeout [C17]
//@   pure
//@   requires r != nil
//@   ensures result <==> r.electionElapsed >= r.randomizedElectionTimeout

//@ -- the one whitelisted source of randomness (C19): the draw is an explicit input of the transition
//@ func raft.lockedRand.Intn [C19]
//@   trusted
//@   requires n > 0
//@   ensures 0 <= result && result < n

//@ func raft.raft.resetRandomizedElectionTimeout [C19 C17]
//@   requires r != nil && r.electionTimeout >= 1 && r.electionTimeout <= 1073741824
//@   frame raft.raft: r
//@   ensures #range [C19] r.electionTimeout <= r.randomizedElectionTimeout && r.randomizedElectionTimeout < 2 * r.electionTimeout
//@   ensures #only r.Term == old(r.Term) && r.Vote == old(r.Vote) && r.state == old(r.state) && r.lead == old(r.lead) && r.electionTimeout == old(r.electionTimeout)
//@        && r.msgs == old(r.msgs) && r.msgsAfterAppend == old(r.msgsAfterAppend) && r.raftLog == old(r.raftLog) && r.electionElapsed == old(r.electionElapsed)

//@ func raft.raft.abortLeaderTransfer
//@   requires r != nil
//@   frame raft.raft: r
//@   ensures r.leadTransferee == 0 && r.Term == old(r.Term) && r.Vote == old(r.Vote) && r.state == old(r.state) && r.lead == old(r.lead)
//@        && r.msgs == old(r.msgs) && r.msgsAfterAppend == old(r.msgsAfterAppend) && r.raftLog == old(r.raftLog)

//@ func raft.raft.committedEntryInCurrentTerm [C11]
//@   pure
//@   requires wf_raft(r)
//@   reveal wf_raftLog
//@   ensures #def [C11] result <==> ((log_has(r.raftLog, r.raftLog.committed) ? log_term(r.raftLog, r.raftLog.committed) : 0) == r.Term)

//@ func raft.raft.increaseUncommittedSize [C16 C20]
//@   requires r != nil
//@   requires #a-arith-no-wrap r.uncommittedSize + sumpay(ents, len(ents)) < 18446744073709551616
//@   frame raft.raft: r
//@   ensures #refuse [C16] !result <==> (old(r.uncommittedSize) > 0 && sumpay(ents, len(ents)) > 0 && old(r.uncommittedSize) + sumpay(ents, len(ents)) > r.maxUncommittedSize)
//@   ensures #account [C16] (result ==> r.uncommittedSize == old(r.uncommittedSize) + sumpay(ents, len(ents)) || r.uncommittedSize == old(r.uncommittedSize) + sumpay(ents, len(ents)) - 18446744073709551616)
//@        && (!result ==> r.uncommittedSize == old(r.uncommittedSize))
//@   ensures #empty-always-accepted [C16 C14] sumpay(ents, len(ents)) == 0 ==> result
//@   ensures #rest r.Term == old(r.Term) && r.Vote == old(r.Vote) && r.state == old(r.state) && r.lead == old(r.lead) && r.msgs == old(r.msgs)
//@        && r.msgsAfterAppend == old(r.msgsAfterAppend) && r.raftLog == old(r.raftLog) && r.maxUncommittedSize == old(r.maxUncommittedSize)

//@ func raft.raft.reduceUncommittedSize [C16]
//@   requires r != nil
//@   frame raft.raft: r
//@   ensures #saturating [C16] r.uncommittedSize == (s > old(r.uncommittedSize) ? 0 : old(r.uncommittedSize) - s)
//@   ensures #rest r.Term == old(r.Term) && r.Vote == old(r.Vote) && r.state == old(r.state) && r.lead == old(r.lead) && r.msgs == old(r.msgs)
//@        && r.msgsAfterAppend == old(r.msgsAfterAppend) && r.raftLog == old(r.raftLog)

//@ func raft.voteRespMsgType [C14 C02]
//@   pure
//@   requires #vote-type [C14] msgt == pb.MsgVote || msgt == pb.MsgPreVote
//@   ensures result == (msgt == pb.MsgVote ? pb.MsgVoteResp : pb.MsgPreVoteResp)

//@ func raft.raft.loadState [C07 C14]
//@   requires wf_raft(r) && state != nil
//@   reveal wf_raftLog
//@   requires #range [C14 C07] state.GetCommit() >= r.raftLog.committed && state.GetCommit() <= log_last(r.raftLog) && state.GetTerm() < 9223372036854775808
//@   frame raft.raft: r
//@   frame raft.raftLog: r.raftLog
//@   ensures #restored [C07 C02] r.Term == old(state.GetTerm()) && r.Vote == old(state.GetVote()) && r.raftLog.committed == old(state.GetCommit())
//@   ensures #wf wf_raft(r) && r.raftLog == old(r.raftLog)

//@ func raft.raft.maybeCommit [C06 C04 C07]
//@   requires wf_raft(r)
//@   reveal wf_trk
//@   frame raft.raftLog: r.raftLog
//@   ensures #reads-kept [C11] old(reads_wf(r)) ==> reads_wf(r)
//@   ensures #quorum-own-term [C06 C04] result ==> jointCommittedByMatch(&r.trk, r.raftLog.committed) && log_has(r.raftLog, r.raftLog.committed)
//@        && log_term(r.raftLog, r.raftLog.committed) == r.Term && r.raftLog.committed > old(r.raftLog.committed) && r.Term != 0
//@   ensures #unchanged [C06] !result ==> r.raftLog.committed == old(r.raftLog.committed)
//@   ensures #rest raft_kept_but_msgs(r) && r.msgs == old(r.msgs) && r.msgsAfterAppend == old(r.msgsAfterAppend)
//@   ensures #wf wf_raft(r) && hs_monotone(r)

//@ func raft.raft.sendHeartbeat [C06 C14]
//@   frame raftpb.Message:
//@   frame elems *raftpb.Message: r.msgs, r.msgsAfterAppend
//@   requires wf_raft(r) && r.state == StateLeader
//@   requires #peer [C14] has(r.trk.Progress, to) && to != r.id
//@   reveal wf_trk
//@   ensures #reads-kept [C11] old(reads_wf(r)) ==> reads_wf(r)
//@   ensures #commit-clamp [C06] len(r.msgs) == old(len(r.msgs)) + 1 && r.msgs[old(len(r.msgs))].GetType() == pb.MsgHeartbeat && r.msgs[old(len(r.msgs))].GetTo() == to
//@        && r.msgs[old(len(r.msgs))].GetCommit() == min(old(r.trk.Progress[to].Match), r.raftLog.committed) && r.msgs[old(len(r.msgs))].GetTerm() == r.Term
//@   ensures #deferred-untouched [C05] r.msgsAfterAppend == old(r.msgsAfterAppend)
//@   ensures #rest raft_kept_but_msgs(r) && r.raftLog.committed == old(r.raftLog.committed)
//@   ensures #wf wf_raft(r) && hs_monotone(r)


//@ func raft.raftLog.snapshot [C09]
//@   reveal wf_raftLog, wf_unstable, wf_storage
//@   requires wf_raftLog(l)
//@   ensures #errors result1 == nil || result1 == ErrSnapshotTemporarilyUnavailable
//@   ensures #committed-prefix [C09] result1 == nil ==> result0 != nil && fresh(result0) && snapIndex(result0) <= l.committed && snapIndex(result0) + 1 >= log_first(l)
//@        && snapIndex(result0) < 9223372036854775808
//@   ensures #wf wf_raftLog(l)

//@ -- leader-side relation between progress records and the log: nothing is tracked beyond the leader's own log
//@ pred progress_in_log(r *raft, pr *tracker.Progress) := pr.Match <= log_last(r.raftLog) && pr.Next <= log_last(r.raftLog) + 1 && pr.Next >= 1
//@     && pr.PendingSnapshot <= log_last(r.raftLog)
//@ spec lastMsg(r *raft) *pb.Message := r.msgs[len(r.msgs) - 1]

//@ func raft.raft.maybeSendSnapshot [C09 C16 C14]
//@   frame raftpb.Message:
//@   frame elems *raftpb.Message: r.msgs, r.msgsAfterAppend
//@   requires wf_raft(r) && r.state == StateLeader
//@   requires #peer has(r.trk.Progress, to) && r.trk.Progress[to] == pr && to != r.id
//@   requires #behind-compaction [C14] pr.Match + 1 < log_first(r.raftLog)
//@   reveal wf_trk, wf_raftLog
//@   frame tracker.Progress: pr
//@   frame tracker.Inflights: pr.Inflights
//@   ensures #log-cursors-kept [C08] log_cursors_kept(r.raftLog)
//@   ensures #reads-kept [C11] old(reads_wf(r)) ==> reads_wf(r)
//@   ensures #inactive-noop [C09] !old(pr.RecentActive) ==> !result && r.msgs == old(r.msgs) && pr.State == old(pr.State) && pr.Next == old(pr.Next) && pr.PendingSnapshot == old(pr.PendingSnapshot)
//@   ensures #sent [C09 C16] result ==> pr.State == tracker.StateSnapshot && len(r.msgs) == old(len(r.msgs)) + 1 && lastMsg(r).GetType() == pb.MsgSnap && lastMsg(r).GetTo() == to
//@        && lastMsg(r).Snapshot != nil && pr.PendingSnapshot == snapIndex(lastMsg(r).Snapshot) && pr.Next == pr.PendingSnapshot + 1
//@        && snapIndex(lastMsg(r).Snapshot) <= r.raftLog.committed && lastMsg(r).GetTerm() == r.Term
//@   ensures #not-sent !result ==> r.msgs == old(r.msgs) && pr.State == old(pr.State) && pr.Next == old(pr.Next) && pr.PendingSnapshot == old(pr.PendingSnapshot)
//@   ensures #pending-in-log [C09] result ==> pr.PendingSnapshot <= log_last(r.raftLog)
//@   ensures #log-kept log_last(r.raftLog) == old(log_last(r.raftLog))
//@   ensures #match-kept [C06] pr.Match == old(pr.Match)
//@   ensures #deferred-untouched [C05] r.msgsAfterAppend == old(r.msgsAfterAppend)
//@   ensures #rest raft_kept_but_msgs(r) && r.raftLog.committed == old(r.raftLog.committed)
//@   ensures #wf wf_raft(r) && hs_monotone(r)

//@ func raft.raft.maybeSendAppend [C16 C06 C03 C14]
//@   frame raftpb.Message:
//@   frame elems *raftpb.Message: r.msgs, r.msgsAfterAppend
//@   requires wf_raft(r) && r.state == StateLeader
//@   after raft.raft.send assert #sent-app lastMsg(r).GetType() == pb.MsgApp && lastMsg(r).GetTo() == to && lastMsg(r).GetTerm() == r.Term && len(r.msgs) == old(len(r.msgs)) + 1
//@   after raft.raft.send assert #sent-idx lastMsg(r).GetIndex() == old(r.trk.Progress[to].Next) - 1
//@   after raft.raft.send assert #sent-logterm lastMsg(r).GetLogTerm() == prevTerm
//@   after raft.raft.send assert #sent-ents lastMsg(r).Entries == ents
//@   after raft.raft.send assert #sent-commit lastMsg(r).GetCommit() == r.raftLog.committed
//@   after tracker.Progress.SentEntries assert #still-app lastMsg(r).GetType() == pb.MsgApp && len(r.msgs) == old(len(r.msgs)) + 1 && lastMsg(r).GetTo() == to && lastMsg(r).GetTerm() == r.Term
//@        && lastMsg(r).GetIndex() == old(r.trk.Progress[to].Next) - 1 && lastMsg(r).GetLogTerm() == prevTerm && lastMsg(r).Entries == ents
//@   after tracker.Progress.SentCommit assert #still-app2 lastMsg(r).GetType() == pb.MsgApp && len(r.msgs) == old(len(r.msgs)) + 1 && lastMsg(r).GetTo() == to && lastMsg(r).GetTerm() == r.Term
//@        && lastMsg(r).GetIndex() == old(r.trk.Progress[to].Next) - 1 && lastMsg(r).GetLogTerm() == prevTerm && lastMsg(r).Entries == ents
//@   requires #peer [C14] has(r.trk.Progress, to) && to != r.id
//@   requires #in-log [C14] progress_in_log(r, r.trk.Progress[to])
//@   reveal wf_trk, wf_raftLog, wf_unstable, wf_storage
//@   frame tracker.Progress: r.trk.Progress[to]
//@   frame tracker.Inflights: r.trk.Progress[to].Inflights
//@   ensures #log-cursors-kept [C08] log_cursors_kept(r.raftLog)
//@   ensures #reads-kept [C11] old(reads_wf(r)) ==> reads_wf(r)
//@   ensures #paused-noop [C16] old(r.trk.Progress[to].State == tracker.StateSnapshot || r.trk.Progress[to].MsgAppFlowPaused) ==> !result && r.msgs == old(r.msgs)
//@        && r.trk.Progress[to].Next == old(r.trk.Progress[to].Next) && r.trk.Progress[to].State == old(r.trk.Progress[to].State)
//@        && r.trk.Progress[to].PendingSnapshot == old(r.trk.Progress[to].PendingSnapshot)
//@   ensures #one-message [C16] len(r.msgs) == old(len(r.msgs)) + (result ? 1 : 0) && (!result ==> r.msgs == old(r.msgs))
//@   ensures #msgapp-header [C16 C03] result && lastMsg(r).GetType() == pb.MsgApp ==> lastMsg(r).GetTo() == to && lastMsg(r).GetTerm() == r.Term
//@        && lastMsg(r).GetIndex() == old(r.trk.Progress[to].Next) - 1
//@   ensures #msgapp-logterm [C03] result && lastMsg(r).GetType() == pb.MsgApp ==> lastMsg(r).GetLogTerm() == log_term(r.raftLog, old(r.trk.Progress[to].Next) - 1)
//@   ensures #msgapp-commit [C06] result && lastMsg(r).GetType() == pb.MsgApp ==> lastMsg(r).GetCommit() == r.raftLog.committed
//@   ensures #msgapp-size [C16] result && lastMsg(r).GetType() == pb.MsgApp ==> (len(lastMsg(r).Entries) <= 1 || sumsize(lastMsg(r).Entries, len(lastMsg(r).Entries)) <= r.maxMsgSize)
//@   ensures #msgapp-next [C16] result && lastMsg(r).GetType() == pb.MsgApp ==>
//@        r.trk.Progress[to].Next == old(r.trk.Progress[to].Next) + (r.trk.Progress[to].State == tracker.StateReplicate ? len(lastMsg(r).Entries) : 0)
//@   ensures #only-app-or-snap result ==> lastMsg(r).GetType() == pb.MsgApp || lastMsg(r).GetType() == pb.MsgSnap
//@   ensures #no-entries-when-full [C16] result && lastMsg(r).GetType() == pb.MsgApp && old(r.trk.Progress[to].State == tracker.StateReplicate && fullSpec(r.trk.Progress[to].Inflights)) ==> len(lastMsg(r).Entries) == 0
//@   ensures #match-kept [C06] r.trk.Progress[to].Match == old(r.trk.Progress[to].Match) && r.trk.Progress == old(r.trk.Progress)
//@   ensures #activity-kept [C17] r.trk.Progress[to].RecentActive == old(r.trk.Progress[to].RecentActive) && r.trk.Progress[to].IsLearner == old(r.trk.Progress[to].IsLearner)
//@   ensures #deferred-untouched [C05] r.msgsAfterAppend == old(r.msgsAfterAppend)
//@   ensures #next-in-log [C14] progress_in_log(r, r.trk.Progress[to]) && log_last(r.raftLog) == old(log_last(r.raftLog))
//@   ensures #rest raft_kept_but_msgs(r) && r.raftLog.committed == old(r.raftLog.committed)
//@   ensures #wf wf_raft(r) && hs_monotone(r)

//@ func raft.raft.sendAppend [C16]
//@   frame raftpb.Message:
//@   frame elems *raftpb.Message: r.msgs, r.msgsAfterAppend
//@   requires wf_raft(r) && r.state == StateLeader
//@   requires #peer [C14] has(r.trk.Progress, to) && to != r.id && progress_in_log(r, r.trk.Progress[to])
//@   reveal wf_trk
//@   frame tracker.Progress: r.trk.Progress[to]
//@   frame tracker.Inflights: r.trk.Progress[to].Inflights
//@   ensures #log-cursors-kept [C08] log_cursors_kept(r.raftLog)
//@   ensures #reads-kept [C11] old(reads_wf(r)) ==> reads_wf(r)
//@   ensures #next-in-log [C14] progress_in_log(r, r.trk.Progress[to]) && log_last(r.raftLog) == old(log_last(r.raftLog))
//@   ensures #at-most-one [C16] len(r.msgs) <= old(len(r.msgs)) + 1 && len(r.msgs) >= old(len(r.msgs))
//@   ensures #deferred-untouched [C05] r.msgsAfterAppend == old(r.msgsAfterAppend)
//@   ensures #match-kept [C06] r.trk.Progress[to].Match == old(r.trk.Progress[to].Match) && r.trk.Progress == old(r.trk.Progress)
//@   ensures #snapshot-stays-pending [C16] old(r.trk.Progress[to].State == tracker.StateSnapshot) ==> r.msgs == old(r.msgs) && r.trk.Progress[to].State == tracker.StateSnapshot
//@        && r.trk.Progress[to].PendingSnapshot == old(r.trk.Progress[to].PendingSnapshot)
//@   ensures #activity-kept [C17] r.trk.Progress[to].RecentActive == old(r.trk.Progress[to].RecentActive) && r.trk.Progress[to].IsLearner == old(r.trk.Progress[to].IsLearner)
//@   ensures #rest raft_kept_but_msgs(r) && r.raftLog.committed == old(r.raftLog.committed)
//@   ensures #wf wf_raft(r) && hs_monotone(r)

//@ -- the entries raft itself originates: clones of the proposed entries stamped with (Term, last+1+i); payload and type untouched (C20)
//@ func raft.raft.appendEntry [C20 C03 C05 C16]
//@   frame elems *raftpb.Message: r.msgs, r.msgsAfterAppend
//@   frame raftpb.Message:
//@   requires wf_raft(r) && r.state == StateLeader
//@   requires #ents forall p int :: es.off <= p && p < es.off + len(es) ==> elem(es, p) != nil
//@   requires #term-not-behind-log [C03] log_term(r.raftLog, log_last(r.raftLog)) <= r.Term && r.Term >= 1
//@   requires #a-arith r.uncommittedSize < 4611686018427387904 && log_last(r.raftLog) + len(es) < 4611686018427387904
//@   reveal wf_raftLog, wf_unstable, wf_storage, termsMonotone
//@   after raft.raftLog.append assert #h-last result == old(log_last(r.raftLog)) + len(es) && log_last(r.raftLog) == result
//@   after raft.raftLog.append assert #h-terms forall i int :: old(log_last(r.raftLog)) < i && i <= log_last(r.raftLog) ==> log_term(r.raftLog, i) == r.Term
//@   after raft.raftLog.append assert #h-prefix forall i int :: i <= old(log_last(r.raftLog)) && old(log_has(r.raftLog, i)) ==> log_has(r.raftLog, i) && log_term(r.raftLog, i) == old(log_term(r.raftLog, i))
//@   ensures #log-cursors-kept [C08] log_cursors_kept(r.raftLog)
//@   ensures #reads-kept [C11] old(reads_wf(r)) ==> reads_wf(r)
//@   ensures #dropped-untouched [C20 C16] !accepted ==> log_last(r.raftLog) == old(log_last(r.raftLog)) && r.msgs == old(r.msgs) && r.msgsAfterAppend == old(r.msgsAfterAppend)
//@        && r.uncommittedSize == old(r.uncommittedSize) && r.raftLog.unstable.entries == old(r.raftLog.unstable.entries) && r.raftLog.unstable.offset == old(r.raftLog.unstable.offset)
//@   ensures #appended [C20 C03] accepted ==> log_last(r.raftLog) == old(log_last(r.raftLog)) + len(es)
//@        && (forall i int :: old(log_last(r.raftLog)) < i && i <= log_last(r.raftLog) ==> log_term(r.raftLog, i) == r.Term)
//@   -- TODO #faithful (payload/type of the appended entries equal the proposal's): stated, not yet discharged; see DESIGN §12
//@   ensures #inputs-untouched [C20] forall p int, e *pb.Entry :: es.off <= p && p < es.off + len(es) && e == old(elem(es, p)) ==> e.GetTerm() == old(e.GetTerm())
//@        && e.GetIndex() == old(e.GetIndex()) && e.GetType() == old(e.GetType()) && len(e.Data) == old(len(e.Data))
//@   ensures #empty-accepted [C14 C16] old(forall p int :: es.off <= p && p < es.off + len(es) ==> len(elem(es, p).Data) == 0) && len(es) <= 1 ==> accepted
//@   ensures #self-ack-deferred [C05] accepted ==> len(r.msgsAfterAppend) == old(len(r.msgsAfterAppend)) + 1 && r.msgs == old(r.msgs)
//@        && r.msgsAfterAppend[old(len(r.msgsAfterAppend))].GetType() == pb.MsgAppResp && r.msgsAfterAppend[old(len(r.msgsAfterAppend))].GetTo() == r.id
//@        && r.msgsAfterAppend[old(len(r.msgsAfterAppend))].GetIndex() == log_last(r.raftLog)
//@   ensures #match-untouched [C05 C06] r.trk.Progress == old(r.trk.Progress) && (has(r.trk.Progress, r.id) ==> r.trk.Progress[r.id].Match == old(r.trk.Progress[r.id].Match))
//@   ensures #committed-prefix-stable [C01] forall i int :: i <= old(log_last(r.raftLog)) && old(log_has(r.raftLog, i)) ==> log_has(r.raftLog, i) && log_term(r.raftLog, i) == old(log_term(r.raftLog, i))
//@   ensures #rest r.Term == old(r.Term) && r.Vote == old(r.Vote) && r.state == old(r.state) && r.lead == old(r.lead) && r.raftLog.committed == old(r.raftLog.committed)
//@   ensures #wf wf_raft(r) && hs_monotone(r)
//@   loop 1 invariant #frame allocframe("F$raftpb.Entry", "C$uint64", "C$raftpb.EntryType", "E$uint8", "E$*raftpb.Entry")
//@   loop 1 invariant #cloned 0 <= iter && iter <= len(es) && len(cloned) == len(es) && fresh(cloned) && li == old(log_last(r.raftLog))
//@        && (forall p int :: cloned.off <= p && p < cloned.off + iter ==> elem(cloned, p) != nil && fresh(elem(cloned, p)) && eindex(elem(cloned, p)) == li + 1 + (p - cloned.off) && eterm(elem(cloned, p)) == r.Term)
//@   loop 1 invariant #same-payload forall p int :: {elem(cloned, p)} cloned.off <= p && p < cloned.off + iter ==>
//@        elem(cloned, p).GetType() == elem(es, es.off + (p - cloned.off)).GetType() && len(elem(cloned, p).Data) == len(elem(es, es.off + (p - cloned.off)).Data)

//@ -- ------------------------------------------------------------------------------------------
//@ -- raft.go: role changes

//@ pred progress_reset(r *raft, id uint64) := r.trk.Progress[id].Match == (id == r.id ? log_last(r.raftLog) : 0) && r.trk.Progress[id].Next == log_last(r.raftLog) + 1
//@     && r.trk.Progress[id].State == tracker.StateProbe && r.trk.Progress[id].PendingSnapshot == 0 && !r.trk.Progress[id].MsgAppFlowPaused
//@     && !r.trk.Progress[id].RecentActive && r.trk.Progress[id].sentCommit == 0 && r.trk.Progress[id].Inflights.count == 0

//@ -- the membership side of the tracker is not touched by role changes: configuration, own learner flag, key set of the progress
//@ -- map, the records' identity and their learner flag
//@ pred membership_kept(r *raft) := r.trk.Voters[0] == old(r.trk.Voters[0]) && r.trk.Voters[1] == old(r.trk.Voters[1]) && r.trk.Learners == old(r.trk.Learners)
//@     && r.trk.LearnersNext == old(r.trk.LearnersNext) && r.trk.AutoLeave == old(r.trk.AutoLeave) && r.isLearner == old(r.isLearner)
//@     && (forall id uint64 :: {has(r.trk.Progress, id)} has(r.trk.Progress, id) == old(has(r.trk.Progress, id)))
//@     && (forall id uint64 :: {r.trk.Progress[id]} has(r.trk.Progress, id) ==> r.trk.Progress[id] == old(r.trk.Progress[id]) && r.trk.Progress[id].IsLearner == old(r.trk.Progress[id].IsLearner))
//@ func raft.raft.reset [C07 C02 C06 C10 C16]
//@   requires wf_raft(r)
//@   requires #term-not-lower [C07] term >= r.Term && term < 9223372036854775808
//@   requires #max-inflight r.trk.MaxInflight >= 1
//@   reveal wf_trk, wf_raftLog, wf_unstable, wf_storage, wf_readOnly, trk_distinct
//@   visit 1 invariant #progress-reset forall id uint64 :: seen(id) ==> progress_reset(r, id) && wf_progress(r.trk.Progress[id])
//@   visit 1 invariant #progress-others forall id uint64 :: has(r.trk.Progress, id) && !seen(id) ==> wf_progress(r.trk.Progress[id])
//@   visit 1 invariant #learner-kept forall id uint64 :: has(r.trk.Progress, id) ==> r.trk.Progress[id].IsLearner == old(r.trk.Progress[id].IsLearner)
//@   visit 1 invariant #rest r.Term == term && r.raftLog == old(r.raftLog) && r.trk.Progress == old(r.trk.Progress) && wf_raftLog(r.raftLog) && r.id == old(r.id)
//@        && r.lead == 0 && r.Vote == (term == old(r.Term) ? old(r.Vote) : 0) && r.trk.MaxInflight == old(r.trk.MaxInflight) && len(r.trk.Votes) == 0 && r.trk.Votes != nil
//@   ensures #reads-kept [C11] old(reads_wf(r)) ==> reads_wf(r)
//@   ensures #term-vote [C07 C02] r.Term == term && r.Vote == (term == old(r.Term) ? old(r.Vote) : 0)
//@   ensures #cleared [C02 C10 C16] r.lead == 0 && r.electionElapsed == 0 && r.heartbeatElapsed == 0 && r.leadTransferee == 0 && r.pendingConfIndex == 0 && r.uncommittedSize == 0
//@        && len(r.trk.Votes) == 0
//@   ensures #progress-reset [C06 C04] forall id uint64 :: has(r.trk.Progress, id) ==> progress_reset(r, id)
//@   ensures #readonly-fresh [C11] fresh(r.readOnly) && r.readOnly.option == old(r.readOnly.option) && len(r.readOnly.unconfirmedReads) == 0
//@   ensures #kept r.state == old(r.state) && r.id == old(r.id) && r.raftLog == old(r.raftLog) && r.msgs == old(r.msgs) && r.msgsAfterAppend == old(r.msgsAfterAppend)
//@        && r.raftLog.committed == old(r.raftLog.committed) && r.trk.Progress == old(r.trk.Progress) && log_last(r.raftLog) == old(log_last(r.raftLog))
//@   ensures #wf-but-lead wf_raftLog(r.raftLog) && wf_readOnly(r.readOnly) && wf_trk(&r.trk) && trk_distinct(&r.trk) && hs_monotone(r)
//@   ensures #membership-kept [C10] membership_kept(r)

//@ -- typestate: the step/tick function values correspond to the role (become* establish it; Step and Tick dispatch on it)
//@ pred typestate(r *raft) := (r.state == StateFollower ==> r.step == funcid("raft.stepFollower") && r.tick == funcid("raft.raft.tickElection"))
//@     && (r.state == StateCandidate || r.state == StatePreCandidate ==> r.step == funcid("raft.stepCandidate") && r.tick == funcid("raft.raft.tickElection"))
//@     && (r.state == StateLeader ==> r.step == funcid("raft.stepLeader") && r.tick == funcid("raft.raft.tickHeartbeat"))

//@ func raft.raft.becomeFollower [C07 C02 C17]
//@   requires wf_raft(r)
//@   requires #term-not-lower [C07] term >= r.Term && term < 9223372036854775808 && r.trk.MaxInflight >= 1
//@   requires #lead-not-self [C14] lead != r.id
//@   ensures #reads-kept [C11] old(reads_wf(r)) ==> reads_wf(r)
//@   ensures #follower [C02] r.state == StateFollower && r.lead == lead && r.Term == term && r.Vote == (term == old(r.Term) ? old(r.Vote) : 0)
//@   ensures #cleared r.electionElapsed == 0 && r.leadTransferee == 0 && r.pendingConfIndex == 0 && r.uncommittedSize == 0 && len(r.trk.Votes) == 0
//@   ensures #kept r.id == old(r.id) && r.raftLog == old(r.raftLog) && r.msgs == old(r.msgs) && r.msgsAfterAppend == old(r.msgsAfterAppend)
//@        && r.raftLog.committed == old(r.raftLog.committed) && r.trk.Progress == old(r.trk.Progress) && log_last(r.raftLog) == old(log_last(r.raftLog))
//@   ensures #membership-kept [C10] membership_kept(r)
//@   ensures #wf wf_raft(r) && hs_monotone(r) && typestate(r)

//@ func raft.raft.becomeCandidate [C02 C07 C17 C14]
//@   requires wf_raft(r)
//@   requires #not-leader [C14] r.state != StateLeader
//@   requires #a-arith r.Term + 1 < 9223372036854775808 && r.trk.MaxInflight >= 1
//@   ensures #reads-kept [C11] old(reads_wf(r)) ==> reads_wf(r)
//@   ensures #term-plus-one-vote-self [C02 C07] r.state == StateCandidate && r.Term == old(r.Term) + 1 && r.Vote == r.id && r.lead == 0 && len(r.trk.Votes) == 0
//@   ensures #kept r.id == old(r.id) && r.raftLog == old(r.raftLog) && r.msgs == old(r.msgs) && r.msgsAfterAppend == old(r.msgsAfterAppend)
//@        && r.raftLog.committed == old(r.raftLog.committed) && r.trk.Progress == old(r.trk.Progress) && log_last(r.raftLog) == old(log_last(r.raftLog))
//@   ensures #wf wf_raft(r) && hs_monotone(r) && typestate(r)

//@ func raft.raft.becomePreCandidate [C17 C07 C14]
//@   requires wf_raft(r)
//@   requires #prevote-enabled [C17] r.preVote
//@   requires #not-leader [C14] r.state != StateLeader
//@   reveal wf_trk, trk_distinct
//@   ensures #reads-kept [C11] old(reads_wf(r)) ==> reads_wf(r)
//@   ensures #term-vote-unchanged [C17 C07] r.state == StatePreCandidate && r.Term == old(r.Term) && r.Vote == old(r.Vote) && r.lead == 0 && len(r.trk.Votes) == 0
//@   ensures #kept r.id == old(r.id) && r.raftLog == old(r.raftLog) && r.msgs == old(r.msgs) && r.msgsAfterAppend == old(r.msgsAfterAppend)
//@        && r.raftLog.committed == old(r.raftLog.committed) && r.trk.Progress == old(r.trk.Progress)
//@   ensures #wf wf_raft(r) && hs_monotone(r) && typestate(r)


//@ func raft.raft.becomeLeader [C02 C04 C05 C10 C14]
//@   requires wf_raft(r)
//@   requires #not-follower [C14] r.state != StateFollower
//@   requires #member [C14] has(r.trk.Progress, r.id)
//@   -- the legitimate-transition precondition (C02): a node turns leader only on a vote tally that is Won for its configuration
//@   requires #won [C02] jointVoteSpec(r.trk.Voters, r.trk.Votes) == quorum.VoteWon
//@   requires #term-not-behind-log [C03] log_term(r.raftLog, log_last(r.raftLog)) <= r.Term && r.Term >= 1
//@   requires #a-arith log_last(r.raftLog) + 1 < 4611686018427387904 && r.trk.MaxInflight >= 1
//@   reveal wf_trk, trk_distinct
//@   ensures #reads-kept [C11] old(reads_wf(r)) ==> reads_wf(r)
//@   ensures #leader [C02] r.state == StateLeader && r.lead == r.id && r.Term == old(r.Term) && r.Vote == old(r.Vote)
//@   ensures #noop-entry [C04 C20] log_last(r.raftLog) == old(log_last(r.raftLog)) + 1 && log_term(r.raftLog, log_last(r.raftLog)) == r.Term
//@   ensures #pending-conf [C10] r.pendingConfIndex == old(log_last(r.raftLog))
//@   ensures #self-ack-deferred [C05] len(r.msgsAfterAppend) == old(len(r.msgsAfterAppend)) + 1 && r.msgs == old(r.msgs)
//@        && r.msgsAfterAppend[old(len(r.msgsAfterAppend))].GetType() == pb.MsgAppResp && r.msgsAfterAppend[old(len(r.msgsAfterAppend))].GetTo() == r.id
//@        && r.trk.Progress[r.id].Match == old(log_last(r.raftLog))
//@   ensures #peers-reset [C04 C06] forall id uint64 :: has(r.trk.Progress, id) && id != r.id ==> r.trk.Progress[id].Match == 0 && r.trk.Progress[id].Next == old(log_last(r.raftLog)) + 1
//@   ensures #committed-prefix-stable [C01] forall i int :: i <= old(log_last(r.raftLog)) && old(log_has(r.raftLog, i)) ==> log_has(r.raftLog, i) && log_term(r.raftLog, i) == old(log_term(r.raftLog, i))
//@   ensures #kept r.id == old(r.id) && r.raftLog == old(r.raftLog) && r.raftLog.committed == old(r.raftLog.committed) && r.trk.Progress == old(r.trk.Progress)
//@   ensures #progress-in-log [C06 C14] forall id uint64 :: has(r.trk.Progress, id) ==> progress_in_log(r, r.trk.Progress[id])
//@   ensures #wf wf_raft(r) && hs_monotone(r) && typestate(r)

//@ -- ------------------------------------------------------------------------------------------
//@ -- raft.go: elections

//@ func raft.raft.poll [C02]
//@   requires wf_raft(r)
//@   reveal wf_trk
//@   ensures #reads-kept [C11] old(reads_wf(r)) ==> reads_wf(r)
//@   ensures #first-wins [C02] (old(has(r.trk.Votes, id)) ==> r.trk.Votes[id] == old(r.trk.Votes[id])) && (!old(has(r.trk.Votes, id)) ==> r.trk.Votes[id] == v) && has(r.trk.Votes, id)
//@   ensures #others-kept [C02] forall k uint64 :: k != id ==> has(r.trk.Votes, k) == old(has(r.trk.Votes, k)) && r.trk.Votes[k] == old(r.trk.Votes[k])
//@   ensures #tally [C02 C12] result == jointVoteSpec(r.trk.Voters, r.trk.Votes)
//@   ensures #rest raft_kept_but_msgs(r) && r.msgs == old(r.msgs) && r.msgsAfterAppend == old(r.msgsAfterAppend) && r.raftLog.committed == old(r.raftLog.committed)
//@        && r.trk.Progress == old(r.trk.Progress) && r.trk.Votes == old(r.trk.Votes)
//@   ensures #wf wf_raft(r) && hs_monotone(r)

//@ -- "a committed configuration change has not been applied yet": some entry in [lo, hi) of the log is a conf change
//@ pred opaque confChangeIn(l *raftLog, lo uint64, hi uint64) := exists i int :: lo <= i && i < hi && allocated(log_ent(l, i)) && isConfEntry(log_ent(l, i))
//@ -- scan and the callback are verified in the context of this caller (they are inlined; their loop invariants may name r and found)
//@ func raft.raftLog.scan
//@   inline
//@   loop 1 invariant #scanned entry(lo) <= lo && lo <= hi && !found && wf_raftLog(l) && log_cursors_kept(l) && l.unstable.snapshot == nil
//@        && l.unstable.entries == old(l.unstable.entries) && l.unstable.offset == old(l.unstable.offset)
//@   loop 1 invariant #none-so-far forall i int :: {log_ent(l, i)} entry(lo) <= i && i < lo ==> !isConfEntry(log_ent(l, i))
//@   loop 1 invariant #entries-frame frameexcept("E$*raftpb.Entry")
//@ func raft.raft.hasUnappliedConfChanges$1
//@   inline
//@   loop 1 invariant #window 0 <= iter && iter <= len(ents)
//@   loop 1 invariant #not-found !found
//@   loop 1 invariant #none-in-window forall p int :: {elem(ents, p)} ents.off <= p && p < ents.off + iter ==> !isConfEntry(elem(ents, p))
//@ func raft.raft.hasUnappliedConfChanges [C10 C14]
//@   frame elems *raftpb.Entry:
//@   requires wf_raft(r)
//@   -- callers check promotable() first, which excludes a pending snapshot: the unapplied committed entries are all in the log
//@   requires #no-pending-snapshot [C14] r.raftLog.unstable.snapshot == nil
//@   reveal wf_raftLog, wf_unstable, wf_storage, log_ent, confChangeIn
//@   ensures #def [C10] result <==> (r.raftLog.applied < r.raftLog.committed && confChangeIn(r.raftLog, r.raftLog.applied + 1, r.raftLog.committed + 1))
//@   ensures #unchanged node_unchanged(r)
//@   ensures #wf wf_raft(r)

//@ func raft.raft.campaign [C02 C17 C05 C19]
//@   requires wf_raft(r)
//@   requires #not-leader [C14] r.state != StateLeader
//@   requires #prevote-enabled [C17] t == campaignPreElection ==> r.preVote
//@   -- the legitimate-transition precondition (C17): a pre-candidate starts the real election only on a pre-vote tally that is Won
//@   requires #prevote-won [C17] t != campaignPreElection && r.state == StatePreCandidate ==> jointVoteSpec(r.trk.Voters, r.trk.Votes) == quorum.VoteWon
//@   requires #a-arith r.Term + 1 < 9223372036854775808 && r.trk.MaxInflight >= 1
//@   reveal wf_raftLog, wf_unstable, wf_storage
//@   ensures #reads-kept [C11] old(reads_wf(r)) ==> reads_wf(r)
//@   ensures #pre-election [C17] t == campaignPreElection ==> r.state == StatePreCandidate && r.Term == old(r.Term) && r.Vote == old(r.Vote)
//@   ensures #election [C02 C07] t != campaignPreElection ==> r.state == StateCandidate && r.Term == old(r.Term) + 1 && r.Vote == r.id
//@   ensures #votes-empty [C02 C05] len(r.trk.Votes) == 0
//@   ensures #kept r.id == old(r.id) && r.raftLog == old(r.raftLog) && r.raftLog.committed == old(r.raftLog.committed) && r.trk.Progress == old(r.trk.Progress)
//@        && log_last(r.raftLog) == old(log_last(r.raftLog))
//@   ensures #wf wf_raft(r) && hs_monotone(r) && typestate(r)
//@   loop 1 invariant #ids len(ids) == iter && ids != nil
//@   loop 2 invariant #reads old(reads_wf(r)) ==> reads_wf(r)
//@   loop 2 invariant #state 0 <= iter && iter <= len(ids) && wf_raft(r) && typestate(r) && r.Term == (t == campaignPreElection ? old(r.Term) : old(r.Term) + 1) && r.Vote == (t == campaignPreElection ? old(r.Vote) : r.id)
//@        && r.state == (t == campaignPreElection ? StatePreCandidate : StateCandidate) && len(r.trk.Votes) == 0 && r.id == old(r.id) && r.raftLog == old(r.raftLog)
//@        && r.raftLog.committed == old(r.raftLog.committed) && r.trk.Progress == old(r.trk.Progress) && log_last(r.raftLog) == old(log_last(r.raftLog)) && term >= 1

//@ -- ------------------------------------------------------------------------------------------
//@ -- raft.go: follower-side handlers. Every reply that reports a log position is a response type and is therefore
//@ -- routed to msgsAfterAppend (C05: durable before visible); the position reported is exactly what the local log holds (C06/C03).

//@ spec lastDeferred(r *raft) *pb.Message := r.msgsAfterAppend[len(r.msgsAfterAppend) - 1]
//@ pred one_deferred_reply(r *raft, to uint64, t pb.MessageType) := len(r.msgsAfterAppend) == old(len(r.msgsAfterAppend)) + 1 && r.msgs == old(r.msgs)
//@     && lastDeferred(r).GetType() == t && lastDeferred(r).GetTo() == to && lastDeferred(r).GetTerm() == r.Term && lastDeferred(r).GetFrom() == r.id

//@ func raft.raft.handleHeartbeat [C06 C05 C07 C14]
//@   requires wf_raft(r) && m != nil
//@   requires #not-self [C14] m.GetFrom() != r.id
//@   -- E-msg-wf: a leader never advertises a commit index above what it knows the follower holds (sendHeartbeat#post:commit-clamp)
//@   requires #commit-in-log [C14 C06] m.GetCommit() <= log_last(r.raftLog)
//@   ensures #reads-kept [C11] old(reads_wf(r)) ==> reads_wf(r)
//@   ensures #commit-max [C06 C07] r.raftLog.committed == max(old(r.raftLog.committed), old(m.GetCommit()))
//@   ensures #reply [C05] len(r.msgs) == old(len(r.msgs)) + 1 && r.msgsAfterAppend == old(r.msgsAfterAppend)
//@        && r.msgs[old(len(r.msgs))].GetType() == pb.MsgHeartbeatResp && r.msgs[old(len(r.msgs))].GetTo() == old(m.GetFrom())
//@   ensures #rest raft_kept_but_msgs(r) && log_last(r.raftLog) == old(log_last(r.raftLog))
//@   ensures #wf wf_raft(r) && hs_monotone(r)

//@ spec msgSlice(m *pb.Message) logSlice := logSliceFromMsgApp(m)

//@ func raft.logSliceFromMsgApp
//@   inline

//@ func raft.raft.handleAppendEntries [C03 C05 C06 C07 C01 C14]
//@   requires wf_raft(r) && m != nil
//@   requires #not-self [C14] m.GetFrom() != r.id
//@   -- E-msg-wf: the entries of a MsgApp are contiguous from Index+1 with non-decreasing terms (maybeSendAppend#post)
//@   requires #valid [C14 C03] entriesFrom(m.Entries, m.GetIndex() + 1) && termsMonotone(m.Entries)
//@        && (len(m.Entries) > 0 ==> m.GetLogTerm() <= eterm(m.Entries[0])) && m.GetIndex() + len(m.Entries) < 4611686018427387904
//@   -- E-leader-complete (DESIGN §3.4): an append accepted at the current term never conflicts with the committed prefix
//@   requires #no-committed-conflict [C14] matchesAt(r.raftLog, m.GetIndex(), m.GetLogTerm()) ==> (forall p int :: m.Entries.off <= p && p < m.Entries.off + len(m.Entries)
//@        && eindex(elem(m.Entries, p)) <= r.raftLog.committed ==> matchesAt(r.raftLog, eindex(elem(m.Entries, p)), eterm(elem(m.Entries, p))))
//@   reveal wf_raftLog
//@   ensures #reads-kept [C11] old(reads_wf(r)) ==> reads_wf(r)
//@   ensures #one-deferred-reply [C05] one_deferred_reply(r, old(m.GetFrom()), pb.MsgAppResp)
//@   ensures #stale-below-commit [C06 C03] old(m.GetIndex() < r.raftLog.committed) ==> !lastDeferred(r).GetReject() && lastDeferred(r).GetIndex() == r.raftLog.committed
//@        && r.raftLog.committed == old(r.raftLog.committed) && log_last(r.raftLog) == old(log_last(r.raftLog))
//@        && r.raftLog.unstable.entries == old(r.raftLog.unstable.entries) && r.raftLog.unstable.offset == old(r.raftLog.unstable.offset)
//@   ensures #accept-ack [C03 C06] old(m.GetIndex() >= r.raftLog.committed && matchesAt(r.raftLog, m.GetIndex(), m.GetLogTerm())) ==> !lastDeferred(r).GetReject()
//@        && lastDeferred(r).GetIndex() == old(m.GetIndex() + len(m.Entries))
//@   ensures #accept-commit [C06 C07] old(m.GetIndex() >= r.raftLog.committed && matchesAt(r.raftLog, m.GetIndex(), m.GetLogTerm())) ==>
//@        r.raftLog.committed == max(old(r.raftLog.committed), min(old(m.GetCommit()), old(m.GetIndex() + len(m.Entries))))
//@   ensures #accept-entries [C03] old(m.GetIndex() >= r.raftLog.committed && matchesAt(r.raftLog, m.GetIndex(), m.GetLogTerm())) ==>
//@        (forall p int, i int :: m.Entries.off <= p && p < m.Entries.off + len(m.Entries) && i == old(m.GetIndex()) + 1 + (p - m.Entries.off)
//@            ==> log_has(r.raftLog, i) && log_term(r.raftLog, i) == old(eterm(elem(m.Entries, p))))
//@   ensures #reject [C03] old(m.GetIndex() >= r.raftLog.committed && !matchesAt(r.raftLog, m.GetIndex(), m.GetLogTerm())) ==> lastDeferred(r).GetReject()
//@        && lastDeferred(r).GetIndex() == old(m.GetIndex()) && lastDeferred(r).GetRejectHint() <= old(m.GetIndex())
//@        && r.raftLog.committed == old(r.raftLog.committed) && log_last(r.raftLog) == old(log_last(r.raftLog))
//@        && r.raftLog.unstable.entries == old(r.raftLog.unstable.entries) && r.raftLog.unstable.offset == old(r.raftLog.unstable.offset)
//@   ensures #ack-within-log [C06 C05] !lastDeferred(r).GetReject() ==> lastDeferred(r).GetIndex() <= log_last(r.raftLog)
//@   ensures #committed-prefix-stable [C01 C03] forall i int :: i <= old(r.raftLog.committed) && old(log_has(r.raftLog, i)) ==> log_has(r.raftLog, i) && log_term(r.raftLog, i) == old(log_term(r.raftLog, i))
//@   ensures #rest raft_kept_but_msgs(r) && r.raftLog.applied == old(r.raftLog.applied) && r.raftLog.applying == old(r.raftLog.applying)
//@   ensures #wf wf_raft(r) && hs_monotone(r)

//@ -- ------------------------------------------------------------------------------------------
//@ -- raft.go: snapshot install (C09) and configuration switch

//@ pred inIDs(s []uint64, id uint64) := exists p int :: s.off <= p && p < s.off + len(s) && elem(s, p) == id
//@ pred progressMap_wf(trk tracker.ProgressMap) := trk != nil && (forall id uint64 :: has(trk, id) ==> wf_progress(trk[id]))
//@     && (forall a uint64, b uint64 :: {has(trk, a), has(trk, b)} has(trk, a) && has(trk, b) && a != b ==> trk[a] != trk[b])

//@ -- ASSUMED until the confchange package is under contract (listed in the evidence): Restore on an empty tracker returns
//@ -- a well-formed progress map of fresh records, and touches nothing the caller can see.
//@ -- E-snapshot-conf-valid: the ConfState carried by a snapshot was produced by this library from a valid configuration
//@ ufun confStateOK(cs *pb.ConfState) bool
//@ func confchange.Restore [C13]
//@   trusted
//@   requires #empty-tracker [C13 C09] len(chg.Tracker.Progress) == 0 && len(chg.Tracker.Voters[0]) == 0 && len(chg.Tracker.Voters[1]) == 0
//@        && len(chg.Tracker.Learners) == 0 && len(chg.Tracker.LearnersNext) == 0 && !chg.Tracker.AutoLeave
//@   requires #max-inflight chg.Tracker.MaxInflight >= 1
//@   requires cs != nil
//@   ensures #valid-never-fails [C14] confStateOK(cs) ==> result2 == nil
//@   ensures result2 == nil ==> progressMap_wf(result1) && (forall id uint64 :: has(result1, id) ==> fresh(result1[id]) && fresh(result1[id].Inflights)
//@        && result1[id].Match == 0 && result1[id].Next == max(chg.LastIndex, 1) + 0 && result1[id].Inflights.size == chg.Tracker.MaxInflight
//@        && result1[id].Inflights.maxBytes == chg.Tracker.MaxInflightBytes)

//@ -- ASSUMED: the ConfState derived from the restored configuration is equivalent to the snapshot's (round trip, C13); a
//@ -- mismatch panics. The round trip itself is outside the contracts built so far.
//@ func raft.assertConfStatesEquivalent [C14]
//@   trusted

//@ -- switchToConfig installs (cfg, trk). On a non-leader nothing else changes. A leader that lost its membership may step down
//@ -- (same term; reset keeps the progress map and replaces the vote map); a remaining leader re-evaluates the commit index under
//@ -- the new quorum and probes the peers; the hard state only moves forward in every case.
//@ func raft.raft.switchToConfig [C10 C13 C06 C07 C14]
//@   frame raftpb.Message:
//@   frame elems *raftpb.Message: r.msgs, r.msgsAfterAppend
//@   requires #wf wf_raft(r)
//@   requires #trk-wf progressMap_wf(trk)
//@   requires #a-arith r.trk.MaxInflight >= 1
//@   requires #leader-progress-in-log [C14] r.state == StateLeader ==> (forall id uint64 :: has(trk, id) ==> progress_in_log(r, trk[id]))
//@   reveal wf_trk, trk_distinct
//@   after tracker.ProgressTracker.ConfState assert #installed-wf wf_raft(r) && r.trk.Progress == trk && (old(reads_wf(r)) ==> reads_wf(r)) && (r.state == StateLeader ==> wf_leader(r))
//@   after raft.raft.maybeCommit assert #cs-kept-1 ids_of(cs.Voters, cfg.Voters[0]) && ids_of(cs.VotersOutgoing, cfg.Voters[1]) && ids_of(cs.Learners, cfg.Learners) && ids_of(cs.LearnersNext, cfg.LearnersNext)
//@   after raft.raft.bcastAppend assert #cs-kept-2 ids_of(cs.Voters, cfg.Voters[0]) && ids_of(cs.VotersOutgoing, cfg.Voters[1]) && ids_of(cs.Learners, cfg.Learners) && ids_of(cs.LearnersNext, cfg.LearnersNext)
//@   after quorum.JointConfig.IDs assert #cs-kept-3 ids_of(cs.Voters, cfg.Voters[0]) && ids_of(cs.VotersOutgoing, cfg.Voters[1]) && ids_of(cs.Learners, cfg.Learners) && ids_of(cs.LearnersNext, cfg.LearnersNext)
//@   after raft.raft.abortLeaderTransfer assert #cs-kept-4 ids_of(cs.Voters, cfg.Voters[0]) && ids_of(cs.VotersOutgoing, cfg.Voters[1]) && ids_of(cs.Learners, cfg.Learners) && ids_of(cs.LearnersNext, cfg.LearnersNext)
//@   visit 1 invariant #state wf_raft(r) && raft_kept_but_isLearner(r) && (r.msgs.arr == old(r.msgs.arr) || fresh(r.msgs.arr)) && r.msgsAfterAppend == old(r.msgsAfterAppend)
//@        && r.raftLog.committed == old(r.raftLog.committed) && len(r.msgs) >= old(len(r.msgs)) && log_last(r.raftLog) == old(log_last(r.raftLog)) && r.state == StateLeader
//@        && r.trk.Progress == trk && r.isLearner == (has(trk, r.id) && trk[r.id].IsLearner)
//@   visit 1 invariant #in-log wf_leader(r)
//@   visit 1 invariant #cursors log_cursors_kept(r.raftLog)
//@   visit 1 invariant #outbox-frame frameexcept("E$*raftpb.Message", old(r.msgs), old(r.msgsAfterAppend)) && frameexcept("F$raftpb.Message")
//@   visit 1 invariant #reads old(reads_wf(r)) ==> reads_wf(r)
//@   visit 1 invariant #result ids_of(cs.Voters, cfg.Voters[0]) && ids_of(cs.VotersOutgoing, cfg.Voters[1]) && ids_of(cs.Learners, cfg.Learners) && ids_of(cs.LearnersNext, cfg.LearnersNext)
//@   visit 1 invariant #config r.trk.Voters[0] == cfg.Voters[0] && r.trk.Voters[1] == cfg.Voters[1] && r.trk.Learners == cfg.Learners && r.trk.LearnersNext == cfg.LearnersNext
//@        && r.trk.AutoLeave == cfg.AutoLeave && r.trk.MaxInflight == old(r.trk.MaxInflight) && r.trk.MaxInflightBytes == old(r.trk.MaxInflightBytes) && r.trk.Votes == old(r.trk.Votes)
//@   ensures #reads-kept [C11] old(reads_wf(r)) ==> reads_wf(r)
//@   ensures #installed [C10] r.trk.Progress == trk && r.trk.Voters[0] == cfg.Voters[0] && r.trk.Voters[1] == cfg.Voters[1] && r.trk.Learners == cfg.Learners
//@        && r.trk.LearnersNext == cfg.LearnersNext && r.trk.AutoLeave == cfg.AutoLeave && r.isLearner == (has(trk, r.id) && trk[r.id].IsLearner)
//@   ensures #non-leader-rest old(r.state) != StateLeader ==> raft_kept_but_isLearner(r) && r.msgs == old(r.msgs) && r.msgsAfterAppend == old(r.msgsAfterAppend)
//@        && r.raftLog.committed == old(r.raftLog.committed) && log_last(r.raftLog) == old(log_last(r.raftLog)) && r.trk.Votes == old(r.trk.Votes)
//@   ensures #non-leader-outbox-untouched [C05] old(r.state) != StateLeader ==> allocframe("F$raftpb.Message", "E$*raftpb.Message")
//@   ensures #removed-leader-steps-down [C10] old(r.state) == StateLeader && !(has(trk, r.id) && !trk[r.id].IsLearner) ==>
//@        r.Term == old(r.Term) && r.raftLog.committed == old(r.raftLog.committed) && r.msgs == old(r.msgs) && r.msgsAfterAppend == old(r.msgsAfterAppend)
//@        && (r.stepDownOnRemoval ? r.state == StateFollower && r.lead == 0 : r.state == StateLeader)
//@   ensures #kept r.trk.MaxInflight == old(r.trk.MaxInflight) && r.trk.MaxInflightBytes == old(r.trk.MaxInflightBytes) && r.raftLog == old(r.raftLog)
//@        && r.Term == old(r.Term) && r.id == old(r.id) && log_last(r.raftLog) == old(log_last(r.raftLog)) && r.msgsAfterAppend == old(r.msgsAfterAppend)
//@   ensures #cursors-kept [C08] r.raftLog.applied == old(r.raftLog.applied) && r.raftLog.applying == old(r.raftLog.applying)
//@   ensures #membership-untouched [C13] allocframe("M$map[uint64]struct{}", "M$map[uint64]*tracker.Progress")
//@        && (forall id uint64 :: {trk[id]} has(trk, id) ==> trk[id].IsLearner == old(trk[id].IsLearner))
//@   ensures #result-fresh [C13] result != nil && fresh(result)
//@   ensures #result-voters [C13] ids_of(result.Voters, cfg.Voters[0])
//@   ensures #result-outgoing [C13] ids_of(result.VotersOutgoing, cfg.Voters[1])
//@   ensures #result-learners [C13] ids_of(result.Learners, cfg.Learners) && ids_of(result.LearnersNext, cfg.LearnersNext)
//@   ensures #wf wf_raft(r) && hs_monotone(r)

//@ -- ------------------------------------------------------------------------------------------
//@ -- applyConfChange: the configuration operation selected by the change's shape is run on the current tracker and its result installed.
//@ -- E-app-conf: the application applies only changes the configuration accepts (a rejected change panics by design: "TODO return the error");
//@ -- stated with env-assume at the only place that can judge it.
//@ func raftpb.ConfChangeV2.LeaveJoint [C13]
//@   pure
//@   requires c != nil
//@   ensures #def [C13] result <==> (c.GetTransition() == 0 && len(c.Changes) == 0)
//@ func raftpb.ConfChangeV2.EnterJoint [C13 C14]
//@   pure
//@   requires c != nil
//@   requires #known-transition [C14] 0 <= c.GetTransition() && c.GetTransition() <= 2
//@   ensures #def [C13] result1 <==> (c.GetTransition() != 0 || len(c.Changes) > 1)
//@   ensures #auto-leave [C13] (result1 ==> (result0 <==> c.GetTransition() != 2)) && (!result1 ==> !result0)
//@ func raft.raft.applyConfChange$1
//@   inline
//@ pred tracker_valid(r *raft) := r.trk.Voters[0] != nil
//@     && (forall id uint64 :: has(r.trk.Progress, id) ==> has(r.trk.Voters[0], id) || has(r.trk.Voters[1], id) || has(r.trk.Learners, id) || has(r.trk.LearnersNext, id))
//@ func raft.raft.applyConfChange [C10 C13 C14 C16]
//@   frame raftpb.Message:
//@   frame elems *raftpb.Message: r.msgs, r.msgsAfterAppend
//@   requires wf_raft(r) && cc != nil
//@   requires #a-arith r.trk.MaxInflight >= 1
//@   requires #known-transition [C14] 0 <= cc.GetTransition() && cc.GetTransition() <= 2
//@   requires #tracker-valid [C14] tracker_valid(r)
//@   requires #leave-has-voter [C14] cc.GetTransition() == 0 && len(cc.Changes) == 0 ==> len(r.trk.Voters[0]) > 0
//@   requires #leader-inv [C14] r.state == StateLeader ==> wf_leader(r)
//@   reveal wf_trk, trk_distinct, wf_raftLog
//@   after raft.raft.applyConfChange$1 env-assume #E-app-conf [C14] result2 == nil
//@   after raft.raft.applyConfChange$1 assert #result-nonnil result1 != nil && progress_values_nonnil(result1)
//@   after raft.raft.applyConfChange$1 assert #result-records-wf forall id uint64 :: has(result1, id) ==> wf_progress(result1[id])
//@   after raft.raft.applyConfChange$1 assert #result-distinct records_distinct(result1)
//@   after raft.raft.applyConfChange$1 assert #result-in-log r.state == StateLeader ==> (forall id uint64 :: has(result1, id) ==> progress_in_log(r, result1[id]))
//@   ensures #reads-kept [C11] old(reads_wf(r)) ==> reads_wf(r)
//@   ensures #non-leader-rest old(r.state) != StateLeader ==> raft_kept_but_isLearner(r) && r.msgs == old(r.msgs) && r.msgsAfterAppend == old(r.msgsAfterAppend)
//@        && r.raftLog.committed == old(r.raftLog.committed) && log_last(r.raftLog) == old(log_last(r.raftLog))
//@   ensures #kept r.trk.MaxInflight == old(r.trk.MaxInflight) && r.trk.MaxInflightBytes == old(r.trk.MaxInflightBytes) && r.raftLog == old(r.raftLog)
//@        && r.Term == old(r.Term) && r.id == old(r.id) && log_last(r.raftLog) == old(log_last(r.raftLog)) && r.msgsAfterAppend == old(r.msgsAfterAppend)
//@   ensures #cursors-kept [C08] r.raftLog.applied == old(r.raftLog.applied) && r.raftLog.applying == old(r.raftLog.applying)
//@   -- the installed configuration satisfies the configuration invariants and every progress record is a carried-over or an initial one
//@   ensures #config-invariants [C13] cfg_inv(r.trk.Config, r.trk.Progress) && trk_only_members(r.trk.Config, r.trk.Progress) && r.trk.Voters[0] != nil && len(r.trk.Voters[0]) > 0
//@   ensures #tracker-valid [C13] tracker_valid(r)
//@   ensures #result [C13] result != nil && fresh(result)
//@   ensures #wf wf_raft(r) && hs_monotone(r)

//@ func raftpb.EnsureConfState
//@   inline

//@ func raft.raft.restore [C09 C07 C13 C16 C14]
//@   requires wf_raft(r) && s != nil
//@   requires #a-arith snapIndex(s) < 4611686018427387904 && r.Term + 1 < 9223372036854775808 && r.trk.MaxInflight >= 1
//@   requires #valid-confstate [C14] s.Metadata != nil && s.Metadata.ConfState != nil ==> confStateOK(s.Metadata.ConfState)
//@   reveal wf_raftLog, wf_trk, trk_distinct
//@   ensures #reads-kept [C11] old(reads_wf(r)) ==> reads_wf(r)
//@   ensures #obsolete-ignored [C09 C07] old(snapIndex(s) <= r.raftLog.committed) ==> !result && raft_kept_but_msgs(r) && log_cursors_kept(r.raftLog)
//@        && r.raftLog.unstable.snapshot == old(r.raftLog.unstable.snapshot) && r.raftLog.unstable.entries == old(r.raftLog.unstable.entries)
//@        && r.raftLog.unstable.offset == old(r.raftLog.unstable.offset) && r.trk.Progress == old(r.trk.Progress)
//@   ensures #fast-forward [C09 C03] !result && old(snapIndex(s) > r.raftLog.committed && r.state == StateFollower) ==>
//@        r.raftLog.unstable.snapshot == old(r.raftLog.unstable.snapshot) && r.raftLog.unstable.entries == old(r.raftLog.unstable.entries)
//@        && r.raftLog.unstable.offset == old(r.raftLog.unstable.offset) && r.trk.Progress == old(r.trk.Progress)
//@        && (r.raftLog.committed == old(r.raftLog.committed) || (r.raftLog.committed == old(snapIndex(s)) && old(matchesAt(r.raftLog, snapIndex(s), snapTerm(s)))))
//@   ensures #installed [C09] result ==> old(snapIndex(s) > r.raftLog.committed && r.state == StateFollower && !matchesAt(r.raftLog, snapIndex(s), snapTerm(s)))
//@        && r.raftLog.committed == old(snapIndex(s)) && log_last(r.raftLog) == old(snapIndex(s)) && log_first(r.raftLog) == old(snapIndex(s)) + 1
//@        && r.raftLog.unstable.snapshot != nil && snapIndex(r.raftLog.unstable.snapshot) == old(snapIndex(s)) && snapTerm(r.raftLog.unstable.snapshot) == old(snapTerm(s))
//@   ensures #member-only [C09 C13] result ==> r.id == old(r.id) && old(s.Metadata != nil && s.Metadata.ConfState != nil && (inIDs(s.Metadata.ConfState.Voters, r.id)
//@        || inIDs(s.Metadata.ConfState.Learners, r.id) || inIDs(s.Metadata.ConfState.VotersOutgoing, r.id)))
//@   ensures #limits-kept [C16] r.trk.MaxInflight == old(r.trk.MaxInflight) && r.trk.MaxInflightBytes == old(r.trk.MaxInflightBytes)
//@   ensures #cursors-kept [C08] r.raftLog.applied == old(r.raftLog.applied) && r.raftLog.applying == old(r.raftLog.applying)
//@   ensures #follower-kept old(r.state) == StateFollower ==> raft_kept_but_isLearner(r) && r.msgs == old(r.msgs) && r.msgsAfterAppend == old(r.msgsAfterAppend)
//@   ensures #outbox-untouched [C05] r.msgs == old(r.msgs) && r.msgsAfterAppend == old(r.msgsAfterAppend) && allocframe("F$raftpb.Message", "E$*raftpb.Message")
//@   ensures #wf wf_raft(r) && hs_monotone(r)
//@   loop 1 invariant #not-found !found && 0 <= iter && iter <= 3
//@   loop 2 invariant #not-found !found && 0 <= iter && iter <= len(set)

//@ -- E-msg-wf: a MsgSnap carries a fully populated snapshot (what raftLog.snapshot()/Storage.Snapshot() hand out); the
//@ -- Ensure* helpers are then no-ops. The nil-tolerant paths of those helpers are not covered by the proof.
//@ pred snap_populated(s *pb.Snapshot) := s != nil && s.Metadata != nil && s.Metadata.Index != nil && s.Metadata.Term != nil && s.Metadata.ConfState != nil
//@     && s.Metadata.ConfState.AutoLeave != nil
//@ func raftpb.EnsureSnapshot
//@   inline
//@ func raftpb.EnsureSnapshotMetadata
//@   inline

//@ -- the reply to a MsgSnap acknowledges exactly the commit index: after an install commit == last == snapshot index; an
//@ -- ignored snapshot must not acknowledge anything beyond what is known committed (the leader takes the index as a match)
//@ func raft.raft.handleSnapshot [C09 C06 C05 C07 C14]
//@   requires wf_raft(r) && m != nil
//@   requires #not-self [C14] m.GetFrom() != r.id
//@   requires #a-arith snapIndex(m.Snapshot) < 4611686018427387904 && r.Term + 1 < 9223372036854775808 && r.trk.MaxInflight >= 1
//@   requires #snap-wf [C14] snap_populated(m.Snapshot) && confStateOK(m.Snapshot.Metadata.ConfState)
//@   reveal wf_raftLog
//@   ensures #reads-kept [C11] old(reads_wf(r)) ==> reads_wf(r)
//@   ensures #one-deferred-reply [C05] len(r.msgsAfterAppend) == old(len(r.msgsAfterAppend)) + 1 && r.msgs == old(r.msgs)
//@   ensures #deferred-reply-type [C05] lastDeferred(r).GetType() == pb.MsgAppResp && !lastDeferred(r).GetReject()
//@   ensures #deferred-reply-to [C05] lastDeferred(r).GetTo() == old(m.GetFrom())
//@   after raft.raft.send assert #ack-here [C06 C09] lastDeferred(r).GetIndex() == r.raftLog.committed
//@   ensures #ack-is-commit [C06 C09] lastDeferred(r).GetIndex() == r.raftLog.committed
//@   ensures #commit-in-log [C06] r.raftLog.committed <= log_last(r.raftLog)
//@   ensures #commit-monotone [C07 C09] r.raftLog.committed >= old(r.raftLog.committed)
//@   ensures #follower-kept [C07] old(r.state) == StateFollower ==> raft_kept_but_isLearner(r) && (r.msgs.arr == old(r.msgs.arr) || fresh(r.msgs.arr))
//@        && (r.msgsAfterAppend.arr == old(r.msgsAfterAppend.arr) || fresh(r.msgsAfterAppend.arr))
//@   ensures #never-below-snapshot [C09] old(r.state) == StateFollower ==> r.raftLog.committed == old(r.raftLog.committed) || r.raftLog.committed == old(snapIndex(m.Snapshot))
//@   ensures #wf wf_raft(r) && hs_monotone(r)

//@ -- ------------------------------------------------------------------------------------------
//@ -- raft.go: campaigning is gated (C10: not while a committed configuration change is unapplied; C17: only promotable non-leaders)

//@ pred node_unchanged(r *raft) := raft_kept_but_msgs(r) && r.msgs == old(r.msgs) && r.msgsAfterAppend == old(r.msgsAfterAppend) && log_cursors_kept(r.raftLog) && r.uncommittedSize == old(r.uncommittedSize)
//@     && log_last(r.raftLog) == old(log_last(r.raftLog))
//@     && r.trk.Progress == old(r.trk.Progress) && r.trk.Votes == old(r.trk.Votes) && r.electionElapsed == old(r.electionElapsed)

//@ func raft.raft.hup [C10 C17 C02 C07]
//@   requires wf_raft(r)
//@   requires #prevote-not-skipped [C17] (t == campaignPreElection ==> r.preVote) && (r.state == StatePreCandidate ==> t == campaignPreElection)
//@   requires #a-arith r.Term + 1 < 9223372036854775808 && r.trk.MaxInflight >= 1
//@   ensures #reads-kept [C11] old(reads_wf(r)) ==> reads_wf(r)
//@   ensures #leader-ignores [C02] old(r.state) == StateLeader ==> node_unchanged(r) && (old(wf_leader(r)) ==> wf_leader(r))
//@   ensures #unpromotable-ignored [C17 C10] old(!r.promotable()) ==> node_unchanged(r)
//@   ensures #conf-gate [C10] old(r.raftLog.applied < r.raftLog.committed && confChangeIn(r.raftLog, r.raftLog.applied + 1, r.raftLog.committed + 1)) ==> node_unchanged(r)
//@   ensures #campaigns [C02 C17] r.Term != old(r.Term) || r.state != old(r.state) ==> old(r.state != StateLeader && r.promotable())
//@        && (t == campaignPreElection ? r.state == StatePreCandidate && r.Term == old(r.Term) && r.Vote == old(r.Vote) : r.state == StateCandidate && r.Term == old(r.Term) + 1 && r.Vote == r.id)
//@   ensures #kept r.id == old(r.id) && r.raftLog == old(r.raftLog) && r.raftLog.committed == old(r.raftLog.committed) && r.trk.Progress == old(r.trk.Progress)
//@        && log_last(r.raftLog) == old(log_last(r.raftLog))
//@   ensures #typestate old(typestate(r)) ==> typestate(r)
//@   ensures #wf wf_raft(r) && hs_monotone(r)

//@ -- ------------------------------------------------------------------------------------------
//@ -- raft.go: the per-role step functions. E-msg-wf (DESIGN §3.4) in predicate form: what this library's own senders guarantee
//@ -- about the messages a node is stepped with (each conjunct is a postcondition of the corresponding sender).

//@ pred app_wf(r *raft, m *pb.Message) := m.GetFrom() != r.id && entriesFrom(m.Entries, m.GetIndex() + 1) && termsMonotone(m.Entries)
//@     && (len(m.Entries) > 0 ==> m.GetLogTerm() <= eterm(m.Entries[0])) && m.GetIndex() + len(m.Entries) < 4611686018427387904
//@     && (matchesAt(r.raftLog, m.GetIndex(), m.GetLogTerm()) ==> (forall p int :: m.Entries.off <= p && p < m.Entries.off + len(m.Entries)
//@        && eindex(elem(m.Entries, p)) <= r.raftLog.committed ==> matchesAt(r.raftLog, eindex(elem(m.Entries, p)), eterm(elem(m.Entries, p)))))
//@ pred hb_wf(r *raft, m *pb.Message) := m.GetFrom() != r.id && m.GetCommit() <= log_last(r.raftLog)
//@ pred snap_wf(r *raft, m *pb.Message) := m.GetFrom() != r.id && snapIndex(m.Snapshot) < 4611686018427387904 && snap_populated(m.Snapshot) && confStateOK(m.Snapshot.Metadata.ConfState)
//@ pred fwd_type(t pb.MessageType) := t == pb.MsgProp || t == pb.MsgTransferLeader || t == pb.MsgReadIndex
//@ pred leader_msg_wf(r *raft, m *pb.Message) := (m.GetType() == pb.MsgApp ==> app_wf(r, m)) && (m.GetType() == pb.MsgHeartbeat ==> hb_wf(r, m))
//@     && (m.GetType() == pb.MsgSnap ==> snap_wf(r, m))

//@ func raft.stepFollower [C20 C17 C11 C05 C07 C14 C03 C06 C09]
//@   requires wf_raft(r) && typestate(r) && m != nil
//@   requires #role r.state == StateFollower
//@   requires #a-arith r.Term + 1 < 9223372036854775808 && r.trk.MaxInflight >= 1
//@   requires #leader-msg-wf [C14] leader_msg_wf(r, m)
//@   -- a forwarded local message carries no term (a follower never receives one that another node already stamped: election safety)
//@   requires #forward-term-unset [C14] fwd_type(m.GetType()) && r.lead != 0 ==> m.GetTerm() == 0
//@   reveal wf_readOnly
//@   ensures #reads-kept [C11] old(reads_wf(r)) ==> reads_wf(r)
//@   ensures #prop-dropped [C20] old(m.GetType() == pb.MsgProp && (r.lead == 0 || r.disableProposalForwarding)) ==> result == ErrProposalDropped && node_unchanged(r)
//@   ensures #prop-forwarded [C20] old(m.GetType() == pb.MsgProp && r.lead != 0 && !r.disableProposalForwarding) ==> result == nil && len(r.msgs) == old(len(r.msgs)) + 1
//@        && r.msgs[old(len(r.msgs))] == m && m.GetTo() == r.lead && m.GetType() == pb.MsgProp && m.Entries == old(m.Entries) && r.msgsAfterAppend == old(r.msgsAfterAppend)
//@        && log_cursors_kept(r.raftLog) && log_last(r.raftLog) == old(log_last(r.raftLog)) && r.uncommittedSize == old(r.uncommittedSize)
//@   ensures #leader-contact [C17] old(m.GetType() == pb.MsgApp || m.GetType() == pb.MsgHeartbeat || m.GetType() == pb.MsgSnap) ==> r.electionElapsed == 0 && r.lead == old(m.GetFrom())
//@   ensures #term-vote-kept [C07 C17] old(m.GetType()) != pb.MsgTimeoutNow ==> r.Term == old(r.Term) && r.Vote == old(r.Vote) && r.state == StateFollower
//@   ensures #never-leader [C02] r.state != StateLeader
//@   ensures #timeout-now [C17] old(m.GetType()) == pb.MsgTimeoutNow && r.Term != old(r.Term) ==> r.state == StateCandidate && r.Term == old(r.Term) + 1 && r.Vote == r.id
//@   ensures #forget-leader [C17] old(m.GetType()) == pb.MsgForgetLeader ==> r.lead == (old(r.readOnly.option) == ReadOnlyLeaseBased ? old(r.lead) : 0)
//@   ensures #read-index-resp [C11] old(m.GetType() == pb.MsgReadIndexResp && len(m.Entries) == 1) ==> len(r.readStates) == old(len(r.readStates)) + 1
//@        && r.readStates[old(len(r.readStates))].Index == old(m.GetIndex())
//@   ensures #replies-deferred [C05] old(m.GetType() == pb.MsgApp || m.GetType() == pb.MsgSnap) ==> r.msgs == old(r.msgs) && len(r.msgsAfterAppend) == old(len(r.msgsAfterAppend)) + 1
//@   ensures #commit-monotone [C07] r.raftLog.committed >= old(r.raftLog.committed)
//@   ensures #wf wf_raft(r) && hs_monotone(r) && typestate(r)

//@ -- leader-side replication invariant: every follower cursor lies within the leader's log
//@ pred wf_leader(r *raft) := forall id uint64 :: has(r.trk.Progress, id) ==> progress_in_log(r, r.trk.Progress[id])
//@ pred matches_kept(r *raft) := r.trk.Progress == old(r.trk.Progress) && (forall id uint64 :: has(r.trk.Progress, id) ==> r.trk.Progress[id].Match == old(r.trk.Progress[id].Match))

//@ func raft.raft.bcastAppend [C16 C05 C06 C19]
//@   frame raftpb.Message:
//@   frame elems *raftpb.Message: r.msgs, r.msgsAfterAppend
//@   requires wf_raft(r) && r.state == StateLeader
//@   requires #progress-in-log [C14] wf_leader(r)
//@   reveal trk_distinct, wf_trk
//@   visit 1 invariant #state wf_raft(r) && raft_kept_but_msgs(r) && r.msgsAfterAppend == old(r.msgsAfterAppend) && r.raftLog.committed == old(r.raftLog.committed)
//@        && len(r.msgs) >= old(len(r.msgs)) && log_last(r.raftLog) == old(log_last(r.raftLog))
//@   visit 1 invariant #in-log wf_leader(r)
//@   visit 1 invariant #cursors log_cursors_kept(r.raftLog)
//@   visit 1 invariant #outbox-frame frameexcept("E$*raftpb.Message", old(r.msgs), old(r.msgsAfterAppend)) && frameexcept("F$raftpb.Message")
//@   visit 1 invariant #matches matches_kept(r)
//@   ensures #log-cursors-kept [C08] log_cursors_kept(r.raftLog)
//@   ensures #reads-kept [C11] old(reads_wf(r)) ==> reads_wf(r)
//@   ensures #deferred-untouched [C05] r.msgsAfterAppend == old(r.msgsAfterAppend) && len(r.msgs) >= old(len(r.msgs))
//@   ensures #match-kept [C06] matches_kept(r)
//@   ensures #rest raft_kept_but_msgs(r) && r.raftLog.committed == old(r.raftLog.committed) && log_last(r.raftLog) == old(log_last(r.raftLog))
//@   ensures #wf wf_raft(r) && wf_leader(r) && hs_monotone(r)

//@ pred term_ge_log(r *raft) := log_term(r.raftLog, log_last(r.raftLog)) <= r.Term
//@ pred candidate_member(r *raft) := r.state == StateCandidate || r.state == StatePreCandidate ==> has(r.trk.Progress, r.id) && r.Term + 1 < 9223372036854775808

//@ func raft.stepCandidate [C02 C17 C20 C04 C07 C05 C14]
//@   requires wf_raft(r) && typestate(r) && m != nil
//@   requires #role r.state == StateCandidate || r.state == StatePreCandidate
//@   requires #a-arith r.Term + 1 < 9223372036854775808 && r.trk.MaxInflight >= 1 && log_last(r.raftLog) + 1 < 4611686018427387904
//@   requires #leader-msg-wf [C14] leader_msg_wf(r, m)
//@   -- a message from the leader of this term reaches the handlers only at the node's own term (Step's preamble)
//@   requires #same-term [C14] m.GetType() == pb.MsgApp || m.GetType() == pb.MsgHeartbeat || m.GetType() == pb.MsgSnap ==> m.GetTerm() == r.Term
//@   requires #member [C14] candidate_member(r)
//@   requires #term-not-behind-log [C03 C14] term_ge_log(r) && (r.state == StateCandidate ==> r.Term >= 1)
//@   ensures #reads-kept [C11] old(reads_wf(r)) ==> reads_wf(r)
//@   ensures #prop-dropped [C20] old(m.GetType()) == pb.MsgProp ==> result == ErrProposalDropped && node_unchanged(r)
//@   ensures #steps-down-for-leader [C02 C04] old(m.GetType() == pb.MsgApp || m.GetType() == pb.MsgHeartbeat || m.GetType() == pb.MsgSnap) ==> r.state == StateFollower
//@        && r.lead == old(m.GetFrom()) && r.Term == old(r.Term) && r.Vote == old(r.Vote)
//@   ensures #leader-only-on-won [C02] r.state == StateLeader ==> old(r.state) == StateCandidate && old(m.GetType()) == pb.MsgVoteResp
//@        && r.Term == old(r.Term) && r.Vote == old(r.Vote)
//@   ensures #term-only-up-on-prevote-won [C17] r.Term != old(r.Term) ==> old(r.state) == StatePreCandidate && old(m.GetType()) == pb.MsgPreVoteResp
//@        && r.Term == old(r.Term) + 1 && r.state == StateCandidate && r.Vote == r.id
//@   ensures #ignored [C17] old(m.GetType()) != pb.MsgProp && old(m.GetType()) != pb.MsgApp && old(m.GetType()) != pb.MsgHeartbeat && old(m.GetType()) != pb.MsgSnap
//@        && old(m.GetType()) != (old(r.state) == StatePreCandidate ? pb.MsgPreVoteResp : pb.MsgVoteResp) ==> node_unchanged(r) && result == nil
//@   ensures #commit-monotone [C07] r.raftLog.committed >= old(r.raftLog.committed)
//@   ensures #wf wf_raft(r) && hs_monotone(r) && typestate(r) && (r.state == StateLeader ==> wf_leader(r))

//@ -- ------------------------------------------------------------------------------------------
//@ -- raft.go: leader-side helpers

//@ pred leader_kept(r *raft) := raft_kept_but_msgs(r) && r.raftLog.committed == old(r.raftLog.committed) && log_last(r.raftLog) == old(log_last(r.raftLog)) && matches_kept(r)

//@ func raft.raft.sendTimeoutNow [C17 C05]
//@   frame raftpb.Message:
//@   frame elems *raftpb.Message: r.msgs, r.msgsAfterAppend
//@   requires wf_raft(r)
//@   requires #not-self [C14] to != r.id
//@   ensures #reads-kept [C11] old(reads_wf(r)) ==> reads_wf(r)
//@   ensures #one-message [C17] len(r.msgs) == old(len(r.msgs)) + 1 && lastMsg(r).GetType() == pb.MsgTimeoutNow && lastMsg(r).GetTo() == to && r.msgsAfterAppend == old(r.msgsAfterAppend)
//@   ensures #rest leader_kept(r)
//@   ensures #wf wf_raft(r) && hs_monotone(r)

//@ func raft.raft.bcastHeartbeatWithCtx [C06 C05 C11 C19]
//@   frame raftpb.Message:
//@   frame elems *raftpb.Message: r.msgs, r.msgsAfterAppend
//@   requires wf_raft(r) && r.state == StateLeader
//@   reveal trk_distinct, wf_trk
//@   visit 1 invariant #state wf_raft(r) && raft_kept_but_msgs(r) && r.msgsAfterAppend == old(r.msgsAfterAppend) && r.raftLog.committed == old(r.raftLog.committed)
//@        && len(r.msgs) >= old(len(r.msgs)) && log_last(r.raftLog) == old(log_last(r.raftLog)) && r.readOnly == old(r.readOnly) && r.readStates == old(r.readStates)
//@   visit 1 invariant #matches r.trk.Progress == old(r.trk.Progress) && (forall id uint64 :: has(r.trk.Progress, id) ==> r.trk.Progress[id].Match == old(r.trk.Progress[id].Match)
//@        && r.trk.Progress[id].Next == old(r.trk.Progress[id].Next))
//@   visit 1 invariant #outbox-frame frameexcept("E$*raftpb.Message", old(r.msgs), old(r.msgsAfterAppend)) && frameexcept("F$raftpb.Message")
//@   ensures #reads-kept [C11] old(reads_wf(r)) ==> reads_wf(r)
//@   ensures #deferred-untouched [C05] r.msgsAfterAppend == old(r.msgsAfterAppend) && len(r.msgs) >= old(len(r.msgs))
//@   ensures #cursors-kept [C06] r.trk.Progress == old(r.trk.Progress) && (forall id uint64 :: has(r.trk.Progress, id) ==> r.trk.Progress[id].Match == old(r.trk.Progress[id].Match)
//@        && r.trk.Progress[id].Next == old(r.trk.Progress[id].Next))
//@   ensures #rest raft_kept_but_msgs(r) && r.raftLog.committed == old(r.raftLog.committed) && log_last(r.raftLog) == old(log_last(r.raftLog)) && r.readOnly == old(r.readOnly) && r.readStates == old(r.readStates)
//@   ensures #wf wf_raft(r) && hs_monotone(r)

//@ func raft.raft.bcastHeartbeat [C06 C05 C11]
//@   frame raftpb.Message:
//@   frame elems *raftpb.Message: r.msgs, r.msgsAfterAppend
//@   requires wf_raft(r) && r.state == StateLeader
//@   ensures #reads-kept [C11] old(reads_wf(r)) ==> reads_wf(r)
//@   ensures #deferred-untouched [C05] r.msgsAfterAppend == old(r.msgsAfterAppend) && len(r.msgs) >= old(len(r.msgs))
//@   ensures #cursors-kept [C06] r.trk.Progress == old(r.trk.Progress) && (forall id uint64 :: has(r.trk.Progress, id) ==> r.trk.Progress[id].Match == old(r.trk.Progress[id].Match)
//@        && r.trk.Progress[id].Next == old(r.trk.Progress[id].Next))
//@   ensures #rest raft_kept_but_msgs(r) && r.raftLog.committed == old(r.raftLog.committed) && log_last(r.raftLog) == old(log_last(r.raftLog)) && r.readOnly == old(r.readOnly) && r.readStates == old(r.readStates)
//@   ensures #wf wf_raft(r) && hs_monotone(r)

//@ -- a read request carries its context in Entries[0] (RawNode.ReadIndex builds it so)
//@ pred readreq_wf(m *pb.Message) := m != nil && len(m.Entries) >= 1

//@ func raft.raft.responseToReadIndexReq [C11]
//@   frame raftpb.Message:
//@   requires wf_raft(r) && req != nil
//@   requires #has-entry [C14] readreq_wf(req)
//@   frame raft.raft: r
//@   ensures #local [C11] old(req.GetFrom() == 0 || req.GetFrom() == r.id) ==> result.GetTo() == 0 && len(r.readStates) == old(len(r.readStates)) + 1
//@        && r.readStates[old(len(r.readStates))].Index == readIndex
//@   ensures #remote [C11] old(req.GetFrom() != 0 && req.GetFrom() != r.id) ==> result.GetType() == pb.MsgReadIndexResp && result.GetTo() == old(req.GetFrom())
//@        && result.GetIndex() == readIndex && result.Entries == old(req.Entries) && r.readStates == old(r.readStates)
//@   ensures #fresh result != nil && fresh(result) && result.GetTerm() == 0
//@   ensures #rest raft_kept_but_msgs(r) && r.msgs == old(r.msgs) && r.msgsAfterAppend == old(r.msgsAfterAppend) && r.readOnly == old(r.readOnly) && r.raftLog == old(r.raftLog)
//@        && r.pendingReadIndexMessages == old(r.pendingReadIndexMessages)
//@   ensures #wf wf_raft(r) && hs_monotone(r)

//@ pred pending_reads_wf(r *raft) := forall p int :: r.pendingReadIndexMessages.off <= p && p < r.pendingReadIndexMessages.off + len(r.pendingReadIndexMessages)
//@     ==> readreq_wf(elem(r.pendingReadIndexMessages, p))

//@ -- ReadOnlySafe: the request is queued at the current commit index and is only answered after a heartbeat quorum (C11); the
//@ -- leader's own acknowledgement is recorded; nothing is released here. LeaseBased: answered at once at the commit index.
//@ func raft.sendMsgReadIndexResponse [C11 C05]
//@   frame raftpb.Message:
//@   frame elems *raftpb.Message: r.msgs, r.msgsAfterAppend
//@   requires wf_raft(r) && r.state == StateLeader
//@   requires #has-entry [C14] readreq_wf(m)
//@   requires #a-arith r.readOnly.confirmedReads + len(r.readOnly.unconfirmedReads) + 1 < 4611686018427387904
//@   reveal wf_readOnly
//@   ensures #reads-wf-pending old(reads_wf(r)) ==> pending_reads_wf(r)
//@   ensures #reads-wf old(reads_wf(r)) ==> reads_wf(r)
//@   ensures #safe-queued [C11] old(r.readOnly.option) == ReadOnlySafe ==> len(r.readOnly.unconfirmedReads) == old(len(r.readOnly.unconfirmedReads)) + 1
//@        && r.readOnly.unconfirmedReads[old(len(r.readOnly.unconfirmedReads))].req == m && r.readOnly.unconfirmedReads[old(len(r.readOnly.unconfirmedReads))].index == r.raftLog.committed
//@        && r.readOnly.confirmedReads == old(r.readOnly.confirmedReads) && r.readStates == old(r.readStates)
//@   ensures #lease-answered-at-commit [C11] old(r.readOnly.option) == ReadOnlyLeaseBased ==> (old(m.GetFrom() == 0 || m.GetFrom() == r.id) ?
//@        len(r.readStates) == old(len(r.readStates)) + 1 && r.readStates[old(len(r.readStates))].Index == r.raftLog.committed && r.msgs == old(r.msgs)
//@      : len(r.msgs) == old(len(r.msgs)) + 1 && lastMsg(r).GetType() == pb.MsgReadIndexResp && lastMsg(r).GetIndex() == r.raftLog.committed && lastMsg(r).GetTo() == old(m.GetFrom()))
//@   ensures #queue-bounded [C11] r.readOnly.confirmedReads == old(r.readOnly.confirmedReads) && len(r.readOnly.unconfirmedReads) >= old(len(r.readOnly.unconfirmedReads))
//@        && len(r.readOnly.unconfirmedReads) <= old(len(r.readOnly.unconfirmedReads)) + 1
//@   ensures #deferred-untouched [C05] r.msgsAfterAppend == old(r.msgsAfterAppend) && len(r.msgs) >= old(len(r.msgs))
//@   ensures #rest raft_kept_but_msgs(r) && r.raftLog.committed == old(r.raftLog.committed) && log_last(r.raftLog) == old(log_last(r.raftLog)) && r.readOnly == old(r.readOnly)
//@        && r.pendingReadIndexMessages == old(r.pendingReadIndexMessages) && r.trk.Progress == old(r.trk.Progress)
//@        && (forall id uint64 :: has(r.trk.Progress, id) ==> r.trk.Progress[id].Match == old(r.trk.Progress[id].Match) && r.trk.Progress[id].Next == old(r.trk.Progress[id].Next))
//@   ensures #wf wf_raft(r) && hs_monotone(r)

//@ func raft.releasePendingReadIndexMessages [C11 C05]
//@   frame raftpb.Message:
//@   frame elems *raftpb.Message: r.msgs, r.msgsAfterAppend
//@   requires wf_raft(r) && r.state == StateLeader
//@   requires #pending-wf [C14] reads_wf(r)
//@   requires #a-arith r.readOnly.confirmedReads + len(r.readOnly.unconfirmedReads) + len(r.pendingReadIndexMessages) < 4611686018427387904
//@   reveal wf_readOnly
//@   ensures #only-after-own-term-commit [C11] old(len(r.pendingReadIndexMessages) > 0 && !r.committedEntryInCurrentTerm()) ==> node_unchanged(r) && r.pendingReadIndexMessages == old(r.pendingReadIndexMessages)
//@        && r.readOnly == old(r.readOnly) && len(r.readOnly.unconfirmedReads) == old(len(r.readOnly.unconfirmedReads)) && r.readStates == old(r.readStates)
//@   ensures #drained [C11] old(len(r.pendingReadIndexMessages) == 0 || r.committedEntryInCurrentTerm()) ==> len(r.pendingReadIndexMessages) == 0
//@   ensures #deferred-untouched [C05] r.msgsAfterAppend == old(r.msgsAfterAppend) && len(r.msgs) >= old(len(r.msgs))
//@   ensures #rest raft_kept_but_msgs(r) && r.raftLog.committed == old(r.raftLog.committed) && log_last(r.raftLog) == old(log_last(r.raftLog)) && r.readOnly == old(r.readOnly)
//@        && r.trk.Progress == old(r.trk.Progress)
//@        && (forall id uint64 :: has(r.trk.Progress, id) ==> r.trk.Progress[id].Match == old(r.trk.Progress[id].Match) && r.trk.Progress[id].Next == old(r.trk.Progress[id].Next))
//@   ensures #wf wf_raft(r) && hs_monotone(r) && reads_wf(r)
//@   loop 1 invariant #reads reads_wf(r)
//@   loop 1 invariant #state 0 <= iter && iter <= len(msgs) && wf_raft(r) && r.state == StateLeader && len(r.pendingReadIndexMessages) == 0 && raft_kept_but_msgs(r)
//@        && r.msgsAfterAppend == old(r.msgsAfterAppend) && len(r.msgs) >= old(len(r.msgs)) && r.raftLog.committed == old(r.raftLog.committed)
//@        && log_last(r.raftLog) == old(log_last(r.raftLog)) && r.readOnly == old(r.readOnly) && r.trk.Progress == old(r.trk.Progress)
//@        && r.readOnly.confirmedReads + len(r.readOnly.unconfirmedReads) + (len(msgs) - iter) < 4611686018427387904
//@   loop 1 invariant #outbox-frame frameexcept("E$*raftpb.Message", old(r.msgs), old(r.msgsAfterAppend)) && frameexcept("F$raftpb.Message")
//@   loop 1 invariant #msgs-apart (msgs.arr != r.msgs.arr && msgs.arr != r.msgsAfterAppend.arr) || len(msgs) == 0
//@   loop 1 invariant #msgs-wf msgs == old(r.pendingReadIndexMessages) && (forall p int :: msgs.off <= p && p < msgs.off + len(msgs) ==> readreq_wf(elem(msgs, p)))
//@   loop 1 invariant #cursors forall id uint64 :: has(r.trk.Progress, id) ==> r.trk.Progress[id].Match == old(r.trk.Progress[id].Match) && r.trk.Progress[id].Next == old(r.trk.Progress[id].Next)

//@ -- library and helper functions used by the proposal path (assumed contracts, listed in the evidence)
//@ -- E-app-conf: the data of a conf-change entry handed to Step unmarshals (ProposeConfChange marshals it itself)
//@ ufun dataOK(arr int, off int, n int) bool
//@ func proto.Unmarshal
//@   trusted
//@   modifies F$raftpb.ConfChange, F$raftpb.ConfChangeV2, alloc F$raftpb.ConfChangeSingle, alloc C$uint64, alloc C$raftpb.ConfChangeType, alloc C$raftpb.ConfChangeTransition, alloc E$uint8, alloc E$*raftpb.ConfChangeSingle
//@   ensures dataOK(b.arr, b.off, len(b)) ==> result == nil
//@ -- T-lib (protobuf): Marshal encodes into a fresh byte slice and writes nothing else; what it produces decodes again (round trip)
//@ func proto.Marshal
//@   trusted
//@   modifies alloc E$uint8
//@   ensures result1 == nil ==> (len(result0) > 0 ==> fresh(result0)) && dataOK(result0.arr, result0.off, len(result0))
//@ func raftpb.ConfChangeI.AsV2
//@   modifies alloc F$raftpb.ConfChangeV2, alloc F$raftpb.ConfChangeSingle, alloc C$uint64, alloc C$raftpb.ConfChangeType, alloc E$*raftpb.ConfChangeSingle
//@   ensures result != nil
//@ -- interface contract (assumed; both implementations are one line: `return c, true` / `return nil, false`): no effect
//@ func raftpb.ConfChangeI.AsV1
//@   pure
//@   ensures result1 ==> result0 != nil
//@ func raft.DescribeConfChange
//@   trusted
//@   pure

//@ pred isConfEntry(e *pb.Entry) := e.GetType() == pb.EntryConfChange || e.GetType() == pb.EntryConfChangeV2
//@ pred reads_wf(r *raft) := pending_reads_wf(r) && (forall p int :: r.readOnly.unconfirmedReads.off <= p && p < r.readOnly.unconfirmedReads.off + len(r.readOnly.unconfirmedReads)
//@     ==> readreq_wf(elem(r.readOnly.unconfirmedReads, p).req))

//@ -- what this library's own senders and the RawNode API guarantee about messages stepped on a leader (E-msg-wf, E-app-conf, E-readack)
//@ pred prop_wf(r *raft, m *pb.Message) := len(m.Entries) > 0 && (forall p int :: m.Entries.off <= p && p < m.Entries.off + len(m.Entries) ==> elem(m.Entries, p) != nil
//@        && (isConfEntry(elem(m.Entries, p)) ==> dataOK(elem(m.Entries, p).Data.arr, elem(m.Entries, p).Data.off, len(elem(m.Entries, p).Data))))
//@     && r.uncommittedSize < 4611686018427387904 && log_last(r.raftLog) + len(m.Entries) < 4611686018427387904
//@     && m.Entries.arr != r.raftLog.unstable.entries.arr
//@ pred appresp_wf(r *raft, m *pb.Message) := (m.GetReject() ==> m.GetFrom() != r.id && m.GetRejectHint() < 4611686018427387904) && (!m.GetReject() ==> m.GetIndex() <= log_last(r.raftLog))
//@ pred hbresp_wf(r *raft, m *pb.Message) := m.GetFrom() != r.id && (len(m.Context) != 0 ==> len(m.Context) >= 8
//@        && le64(m.Context) <= r.readOnly.confirmedReads + len(r.readOnly.unconfirmedReads)) && (len(r.trk.Voters[0]) > 0 || len(r.trk.Voters[1]) > 0)
//@ pred leader_msg_in_wf(r *raft, m *pb.Message) := (m.GetType() == pb.MsgProp ==> prop_wf(r, m)) && (m.GetType() == pb.MsgReadIndex ==> readreq_wf(m))
//@     && (m.GetType() == pb.MsgAppResp ==> appresp_wf(r, m)) && (m.GetType() == pb.MsgHeartbeatResp ==> hbresp_wf(r, m))

//@ func raft.stepLeader [C06 C10 C11 C16 C17 C20 C05 C07 C14]
//@   requires wf_raft(r) && typestate(r) && m != nil
//@   requires #role r.state == StateLeader
//@   requires #leader-inv [C14] wf_leader(r) && term_ge_log(r) && r.Term >= 1 && reads_wf(r) && r.trk.MaxInflight >= 1
//@   requires #a-arith log_last(r.raftLog) + 1 < 4611686018427387904
//@        && r.readOnly.confirmedReads + len(r.readOnly.unconfirmedReads) + len(r.pendingReadIndexMessages) + 1 < 4611686018427387904
//@   requires #msg-wf [C14] leader_msg_in_wf(r, m)
//@   reveal wf_trk, trk_distinct, wf_readOnly
//@   case m.GetType() == pb.MsgProp
//@   case m.GetType() == pb.MsgAppResp && m.GetReject()
//@   case m.GetType() == pb.MsgAppResp && !m.GetReject()
//@   case m.GetType() == pb.MsgHeartbeatResp
//@   case m.GetType() == pb.MsgCheckQuorum || m.GetType() == pb.MsgBeat || m.GetType() == pb.MsgReadIndex || m.GetType() == pb.MsgForgetLeader
//@   case m.GetType() == pb.MsgSnapStatus || m.GetType() == pb.MsgUnreachable || m.GetType() == pb.MsgTransferLeader
//@   case m.GetType() != pb.MsgProp && m.GetType() != pb.MsgAppResp && m.GetType() != pb.MsgHeartbeatResp && m.GetType() != pb.MsgCheckQuorum && m.GetType() != pb.MsgBeat
//@        && m.GetType() != pb.MsgReadIndex && m.GetType() != pb.MsgForgetLeader && m.GetType() != pb.MsgSnapStatus && m.GetType() != pb.MsgUnreachable && m.GetType() != pb.MsgTransferLeader
//@   loop 1 invariant #range 0 <= iter && iter <= len(m.Entries) && m.Entries == old(m.Entries)
//@   loop 1 invariant #k1a r.Term == old(r.Term) && r.Vote == old(r.Vote) && r.state == old(r.state) && r.lead == old(r.lead) && r.id == old(r.id)
//@   loop 1 invariant #k1b r.step == old(r.step) && r.tick == old(r.tick)
//@   loop 1 invariant #k1c r.electionElapsed == old(r.electionElapsed) && r.heartbeatElapsed == old(r.heartbeatElapsed)
//@   loop 1 invariant #k1d (r.msgs.arr == old(r.msgs.arr) || fresh(r.msgs.arr)) && (r.msgsAfterAppend.arr == old(r.msgsAfterAppend.arr) || fresh(r.msgsAfterAppend.arr))
//@   loop 1 invariant #k2 r.msgs == old(r.msgs) && r.msgsAfterAppend == old(r.msgsAfterAppend)
//@   loop 1 invariant #k3 r.uncommittedSize == old(r.uncommittedSize) && r.leadTransferee == old(r.leadTransferee)
//@   loop 1 invariant #k4 r.trk.Progress == old(r.trk.Progress)
//@   loop 1 invariant #k5 m.Entries.arr != r.raftLog.unstable.entries.arr
//@   loop 1 invariant #log-kept log_cursors_kept(r.raftLog) && log_last(r.raftLog) == old(log_last(r.raftLog)) && log_last(r.raftLog) + len(m.Entries) < 4611686018427387904
//@   loop 1 invariant #wf wf_raft(r)
//@   loop 1 invariant #inlog wf_leader(r)
//@   loop 1 invariant #termlog term_ge_log(r)
//@   loop 1 invariant #reads reads_wf(r)
//@   loop 1 invariant #entries-nonnil forall p int :: m.Entries.off <= p && p < m.Entries.off + len(m.Entries) ==> elem(m.Entries, p) != nil
//@        && (p >= m.Entries.off + iter && isConfEntry(elem(m.Entries, p)) ==> dataOK(elem(m.Entries, p).Data.arr, elem(m.Entries, p).Data.off, len(elem(m.Entries, p).Data)))
//@   loop 1 invariant #untouched-tail forall p int :: {elem(m.Entries, p)} m.Entries.off + iter <= p && p < m.Entries.off + len(m.Entries) ==> elem(m.Entries, p) == oldelem(m.Entries, p)
//@   loop 1 invariant #types-kept allocframe("F$raftpb.Entry", "C$raftpb.EntryType")
//@   -- C10: an index is recorded only for the entry just examined and only if that entry is a configuration change (checked where it is recorded;
//@   -- that the recorded index lies in the range of this proposal's entries is the loop invariant #pending-conf)
//@   after raft.traceChangeConfEvent assert #recorded-entry-is-conf [C10] isConfEntry(e) && e == elem(m.Entries, m.Entries.off + iter)
//@   after raft.traceChangeConfEvent assert #recorded-index-exact [C10] r.pendingConfIndex == log_last(r.raftLog) + iter + 1
//@   loop 1 invariant #pending-conf [C10] r.pendingConfIndex == old(r.pendingConfIndex)
//@        || (log_last(r.raftLog) + 1 <= r.pendingConfIndex && r.pendingConfIndex < log_last(r.raftLog) + 1 + iter)
//@   loop 1 invariant #conf-gate [C10] r.pendingConfIndex != old(r.pendingConfIndex) ==> r.disableConfChangeValidation || old(r.pendingConfIndex) <= r.raftLog.applied
//@   visit 1 invariant #state wf_raft(r) && typestate(r) && hs_monotone(r) && r.Term == old(r.Term) && r.msgs == old(r.msgs) && r.msgsAfterAppend == old(r.msgsAfterAppend)
//@        && r.raftLog.committed == old(r.raftLog.committed) && r.trk.Progress == old(r.trk.Progress) && r.id == old(r.id)
//@        && (old(majActive(&r.trk, r.trk.Voters[0]) && majActive(&r.trk, r.trk.Voters[1])) ? r.state == StateLeader && wf_leader(r) : r.state == StateFollower && r.lead == 0)
//@   visit 1 invariant #inactive [C17] forall id uint64 :: seen(id) && id != r.id ==> !r.trk.Progress[id].RecentActive
//@   loop 2 invariant #drain-wf wf_raft(r) && r.state == StateLeader
//@   loop 2 invariant #drain-inlog wf_leader(r)
//@   loop 2 invariant #drain-kept raft_kept_but_msgs(r) && r.msgsAfterAppend == old(r.msgsAfterAppend) && len(r.msgs) >= old(len(r.msgs))
//@        && r.trk.Progress == old(r.trk.Progress) && log_last(r.raftLog) == old(log_last(r.raftLog)) && r.raftLog.committed >= old(r.raftLog.committed) && r.leadTransferee == old(r.leadTransferee)
//@   loop 2 invariant #drain-others forall id uint64 :: has(r.trk.Progress, id) && id != m.GetFrom() ==> r.trk.Progress[id].Match == old(r.trk.Progress[id].Match)
//@   loop 2 invariant #drain-from r.trk.Progress[m.GetFrom()].Match == max(old(r.trk.Progress[m.GetFrom()].Match), m.GetIndex()) && has(r.trk.Progress, m.GetFrom()) && m.GetFrom() != r.id
//@   loop 2 invariant #drain-msg m.GetFrom() == old(m.GetFrom()) && m.GetIndex() == old(m.GetIndex()) && m.GetType() == old(m.GetType()) && m.GetReject() == old(m.GetReject())
//@   loop 2 invariant #drain-reads reads_wf(r) && r.pendingConfIndex == old(r.pendingConfIndex)
//@   loop 3 invariant #ans-range 0 <= iter && iter <= len(rss)
//@   loop 3 invariant #ans-wf wf_raft(r) && r.state == StateLeader
//@   loop 3 invariant #ans-inlog wf_leader(r)
//@   loop 3 invariant #ans-kept raft_kept_but_msgs(r) && r.msgsAfterAppend == old(r.msgsAfterAppend)
//@        && len(r.msgs) >= old(len(r.msgs)) && matches_kept(r) && log_last(r.raftLog) == old(log_last(r.raftLog)) && r.raftLog.committed == old(r.raftLog.committed)
//@   loop 3 invariant #ans-reqs forall p int :: rss.off <= p && p < rss.off + len(rss) ==> elem(rss, p) != nil && readreq_wf(elem(rss, p).req)
//@   loop 3 invariant #ans-reads reads_wf(r)
//@   ensures #check-quorum [C17] old(m.GetType()) == pb.MsgCheckQuorum ==> r.Term == old(r.Term)
//@        && (old(majActive(&r.trk, r.trk.Voters[0]) && majActive(&r.trk, r.trk.Voters[1])) ? r.state == StateLeader : r.state == StateFollower && r.lead == 0)
//@        && (forall id uint64 :: has(r.trk.Progress, id) && id != r.id ==> !r.trk.Progress[id].RecentActive)
//@   ensures #deferred-untouched [C05] old(m.GetType()) != pb.MsgProp ==> r.msgsAfterAppend == old(r.msgsAfterAppend)
//@   ensures #clock-kept [C17] old(m.GetType() == pb.MsgBeat || m.GetType() == pb.MsgCheckQuorum) && r.state == StateLeader ==> r.electionElapsed == old(r.electionElapsed)
//@        && r.heartbeatElapsed == old(r.heartbeatElapsed) && r.leadTransferee == old(r.leadTransferee)
//@   -- C16: a pending snapshot is resolved only by a snapshot status report or a successful append response; in particular an
//@   -- unreachable report, a heartbeat response, a rejection or a transfer request from that peer leave it pending, and nothing is appended to it
//@   ensures #snapshot-stays-pending [C16] old(has(r.trk.Progress, m.GetFrom()) && r.trk.Progress[m.GetFrom()].State == tracker.StateSnapshot
//@        && (m.GetType() == pb.MsgUnreachable || m.GetType() == pb.MsgHeartbeatResp || m.GetType() == pb.MsgTransferLeader || (m.GetType() == pb.MsgAppResp && m.GetReject())))
//@        ==> (forall p *tracker.Progress :: p == old(r.trk.Progress[m.GetFrom()]) ==> p.State == tracker.StateSnapshot && p.PendingSnapshot == old(p.PendingSnapshot))
//@   -- C17: only a response from the peer itself counts as activity; reports injected by the application do not
//@   ensures #recent-active-only-on-response [C17] old(has(r.trk.Progress, m.GetFrom()) && (m.GetType() == pb.MsgUnreachable || m.GetType() == pb.MsgSnapStatus || m.GetType() == pb.MsgTransferLeader)) ==>
//@        (forall p *tracker.Progress :: p == old(r.trk.Progress[m.GetFrom()]) ==> p.RecentActive == old(p.RecentActive))
//@   ensures #snap-status-keeps-match [C06] old(m.GetType() == pb.MsgSnapStatus || m.GetType() == pb.MsgUnreachable || m.GetType() == pb.MsgTransferLeader || m.GetType() == pb.MsgHeartbeatResp
//@        || m.GetType() == pb.MsgBeat || m.GetType() == pb.MsgReadIndex || m.GetType() == pb.MsgForgetLeader || (m.GetType() == pb.MsgAppResp && m.GetReject())) ==> matches_kept(r)
//@   ensures #match-only-up [C06] old(m.GetType() == pb.MsgAppResp && !m.GetReject() && has(r.trk.Progress, m.GetFrom())) ==> r.trk.Progress == old(r.trk.Progress)
//@        && r.trk.Progress[old(m.GetFrom())].Match == max(old(r.trk.Progress[m.GetFrom()].Match), old(m.GetIndex()))
//@        && (forall id uint64 :: has(r.trk.Progress, id) && id != old(m.GetFrom()) ==> r.trk.Progress[id].Match == old(r.trk.Progress[id].Match))
//@   -- the commit index moves only through maybeCommit (whose contract makes it quorum-backed and own-term), and only on a successful append acknowledgement
//@   ensures #commit-only-on-ack [C06] r.raftLog.committed != old(r.raftLog.committed) ==> r.raftLog.committed > old(r.raftLog.committed)
//@        && old(m.GetType() == pb.MsgAppResp && !m.GetReject()) && r.raftLog.committed <= log_last(r.raftLog)
//@   ensures #term-kept [C07] r.Term == old(r.Term) && r.Vote == old(r.Vote) && (r.state == StateLeader || old(m.GetType()) == pb.MsgCheckQuorum)
//@   ensures #prop-dropped [C20] old(m.GetType() == pb.MsgProp && (!has(r.trk.Progress, r.id) || r.leadTransferee != 0)) ==> result == ErrProposalDropped && node_unchanged(r)
//@        && r.pendingConfIndex == old(r.pendingConfIndex) && r.uncommittedSize == old(r.uncommittedSize)
//@   ensures #prop-result [C20 C16] old(m.GetType()) == pb.MsgProp ==> (result == nil ? log_last(r.raftLog) == old(log_last(r.raftLog)) + len(m.Entries)
//@        : result == ErrProposalDropped && log_last(r.raftLog) == old(log_last(r.raftLog)) && r.msgs == old(r.msgs) && r.msgsAfterAppend == old(r.msgsAfterAppend) && r.uncommittedSize == old(r.uncommittedSize))
//@   ensures #conf-gate [C10] old(m.GetType()) == pb.MsgProp && r.pendingConfIndex != old(r.pendingConfIndex) ==> (r.disableConfChangeValidation || old(r.pendingConfIndex) <= r.raftLog.applied)
//@   ensures #conf-index [C10] old(m.GetType()) == pb.MsgProp && r.pendingConfIndex != old(r.pendingConfIndex) ==>
//@        old(log_last(r.raftLog)) + 1 <= r.pendingConfIndex && r.pendingConfIndex < old(log_last(r.raftLog)) + 1 + old(len(m.Entries))
//@   ensures #prop-keeps-cursors [C08 C20] old(m.GetType()) == pb.MsgProp ==> log_cursors_kept(r.raftLog) && r.state == StateLeader
//@        && (log_last(r.raftLog) == old(log_last(r.raftLog)) ==> r.uncommittedSize == old(r.uncommittedSize))
//@   ensures #conf-only-on-prop [C10] old(m.GetType()) != pb.MsgProp && r.state == StateLeader ==> r.pendingConfIndex == old(r.pendingConfIndex)
//@   ensures #read-not-before-own-term-commit [C11] old(m.GetType() == pb.MsgReadIndex && !(len(r.trk.Voters[0]) == 1 && len(r.trk.Voters[1]) == 0) && !r.committedEntryInCurrentTerm()) ==>
//@        len(r.pendingReadIndexMessages) == old(len(r.pendingReadIndexMessages)) + 1 && r.pendingReadIndexMessages[old(len(r.pendingReadIndexMessages))] == m
//@        && r.msgs == old(r.msgs) && r.readStates == old(r.readStates) && r.readOnly == old(r.readOnly) && len(r.readOnly.unconfirmedReads) == old(len(r.readOnly.unconfirmedReads))
//@   ensures #transfer [C17] old(m.GetType() == pb.MsgTransferLeader) && r.leadTransferee != old(r.leadTransferee) && r.leadTransferee != 0 ==> r.leadTransferee == old(m.GetFrom()) && r.electionElapsed == 0
//@        && old(has(r.trk.Progress, m.GetFrom())) && !r.trk.Progress[r.leadTransferee].IsLearner
//@   ensures #wf wf_raft(r)
//@   ensures #hs [C07] hs_monotone(r)
//@   ensures #typestate typestate(r)
//@   ensures #leader-inv-kept r.state == StateLeader ==> wf_leader(r)
//@   ensures #reads-wf-kept reads_wf(r)

//@ -- ------------------------------------------------------------------------------------------
//@ -- raft.go: acknowledgements from the local storage threads, and Step itself

//@ -- T-lib (protobuf): empty input decodes (to the zero message)
//@ axiom #dataOK-empty forall a int, o int :: dataOK(a, o, 0)

//@ -- ASSUMED (listed in the evidence): the snapshot acknowledgement path. Between stableSnapTo and appliedTo the log invariant
//@ -- is suspended (applied lags the installed snapshot), which the contracts built so far do not express.
//@ func raft.raft.appliedSnap [C09 C08]
//@   trusted
//@   requires wf_raft(r) && snap != nil
//@   ensures #reads-kept [C11] old(reads_wf(r)) ==> reads_wf(r)
//@   ensures #snapshot-cleared [C09] old(r.raftLog.unstable.snapshot != nil && snapIndex(r.raftLog.unstable.snapshot) == snapIndex(snap)) ==> r.raftLog.unstable.snapshot == nil
//@   ensures #applied-monotone [C08] r.raftLog.applied == max(old(r.raftLog.applied), snapIndex(snap)) && r.raftLog.committed == old(r.raftLog.committed)
//@   ensures #rest r.Term == old(r.Term) && r.Vote == old(r.Vote) && r.raftLog.unstable.entries == old(r.raftLog.unstable.entries) && r.raftLog.unstable.offset == old(r.raftLog.unstable.offset)
//@        && raft_kept_but_msgs(r) && r.msgs == old(r.msgs) && r.msgsAfterAppend == old(r.msgsAfterAppend) && log_last(r.raftLog) == old(log_last(r.raftLog)) && r.uncommittedSize == old(r.uncommittedSize)
//@        && (old(wf_leader(r)) ==> wf_leader(r))
//@   ensures #wf wf_raft(r) && hs_monotone(r) && typestate(r)

//@ pred node_inv(r *raft) := wf_raft(r) && typestate(r) && r.trk.MaxInflight >= 1 && reads_wf(r)
//@     && (r.state == StateLeader ==> wf_leader(r))
//@ -- invariants the contracts rely on but do not yet re-establish (listed as assumptions of Step): the log never runs ahead of
//@ -- the term, a campaigning node is a member, a leader has a term
//@ pred node_inv_assumed(r *raft) := term_ge_log(r) && candidate_member(r) && (r.state == StateLeader || r.state == StateCandidate ==> r.Term >= 1)
//@     && r.Term + 1 < 9223372036854775808 && log_last(r.raftLog) + 1 < 4611686018427387904 && r.uncommittedSize < 4611686018427387904
//@     && (r.Term == 0 ==> log_last(r.raftLog) == 0)
//@     && r.readOnly.confirmedReads + len(r.readOnly.unconfirmedReads) + len(r.pendingReadIndexMessages) + 1 < 4611686018427387904

//@ pred storage_ack_wf(r *raft, m *pb.Message) := (m.GetType() == pb.MsgStorageApplyResp ==> m.GetTerm() == 0) && (m.GetType() == pb.MsgStorageAppendResp ==> m.GetTerm() <= r.Term) &&
//@     (m.GetType() == pb.MsgStorageApplyResp && len(m.Entries) > 0 ==> m.Entries[len(m.Entries) - 1] != nil && eindex(m.Entries[len(m.Entries) - 1]) <= r.raftLog.committed)
//@     && (m.GetType() == pb.MsgStorageAppendResp && m.GetIndex() != 0 ==> append_ack_wf(r.raftLog, m.GetIndex(), m.GetLogTerm()))
//@ -- E-ready-contract: an acknowledgement that matches the unstable log is only delivered after those entries reached storage
//@ pred append_ack_wf(l *raftLog, index uint64, term uint64) :=
//@     ((index >= l.unstable.offset && index < l.unstable.offset + len(l.unstable.entries) && eterm(l.unstable.entries[index - l.unstable.offset]) == term && l.unstable.snapshot == nil) ==>
//@        (st_last(l.storage) >= index && (index + 1 == l.unstable.offset + len(l.unstable.entries) ==> st_last(l.storage) == index) && st_term(l.storage, index) == term))
//@     && (l.unstable.snapshot != nil ==> index < l.unstable.offset || !(index < l.unstable.offset + len(l.unstable.entries) && eterm(l.unstable.entries[index - l.unstable.offset]) == term))

//@ pred step_msg_wf(r *raft, m *pb.Message) := leader_msg_wf(r, m) && m.GetTerm() + 1 < 9223372036854775808
//@     && (isVoteReq(m.GetType()) ==> m.GetTerm() != 0)
//@     && (fwd_type(m.GetType()) && r.state == StateFollower && r.lead != 0 ==> m.GetTerm() != r.Term)
//@     && (r.state == StateLeader && (m.GetTerm() == 0 || m.GetTerm() == r.Term) ==> leader_msg_in_wf(r, m))
//@     && storage_ack_wf(r, m)
//@     && ((m.GetType() == pb.MsgApp || m.GetType() == pb.MsgHeartbeat || m.GetType() == pb.MsgSnap) ==> m.GetTerm() != 0)

//@ spec inLease(r *raft) bool := r.checkQuorum && r.lead != 0 && r.electionElapsed < r.electionTimeout
//@ pred isVoteReq(t pb.MessageType) := t == pb.MsgVote || t == pb.MsgPreVote
//@ spec lastTerm(r *raft) uint64 := log_term(r.raftLog, log_last(r.raftLog))
//@ pred candUpToDate(r *raft, m *pb.Message) := m.GetLogTerm() > lastTerm(r) || (m.GetLogTerm() == lastTerm(r) && m.GetIndex() >= log_last(r.raftLog))

//@ func raft.raft.appliedTo [C08 C10 C14]
//@   reveal wf_raftLog
//@   requires node_inv(r) && node_inv_assumed(r)
//@   requires #range [C14 C08] index <= r.raftLog.committed
//@   ensures #applied-monotone [C08] r.raftLog.applied == max(old(r.raftLog.applied), index) && r.raftLog.applying == max(old(r.raftLog.applying), r.raftLog.applied)
//@        && r.raftLog.committed == old(r.raftLog.committed)
//@   ensures #auto-leave-only-leader [C10] log_last(r.raftLog) != old(log_last(r.raftLog)) ==> old(r.trk.AutoLeave && r.state == StateLeader) && r.raftLog.applied >= old(r.pendingConfIndex)
//@        && log_last(r.raftLog) == old(log_last(r.raftLog)) + 1
//@   ensures #rest r.Term == old(r.Term) && r.Vote == old(r.Vote) && r.state == old(r.state)
//@   ensures #uncommitted-kept [C16] log_last(r.raftLog) == old(log_last(r.raftLog)) ==> r.uncommittedSize == old(r.uncommittedSize)
//@   ensures #entries-untouched !old(r.trk.AutoLeave && r.state == StateLeader) ==> sameheap("E$*raftpb.Entry", "F$raftpb.Entry", "E$uint8", "F$raftpb.Message.Entries")
//@        && log_last(r.raftLog) == old(log_last(r.raftLog))
//@   ensures #wf node_inv(r) && hs_monotone(r)

//@ func raft.raft.Step [C02 C04 C05 C06 C07 C10 C16 C17 C20 C14]
//@   requires #m-nil-or-inv m != nil ==> node_inv(r) && node_inv_assumed(r)
//@   requires #msg-wf [C14] m != nil ==> step_msg_wf(r, m)
//@   case m == nil || m.GetTerm() == 0
//@   case m != nil && m.GetTerm() != 0 && m.GetTerm() < r.Term
//@   case m != nil && m.GetTerm() > r.Term
//@   case m != nil && m.GetTerm() != 0 && m.GetTerm() == r.Term
//@   ensures #nil-msg m == nil ==> result != nil
//@   ensures #hs-monotone [C07] m != nil ==> hs_monotone(r)
//@   ensures #in-lease-ignored [C17] m != nil && old(m.GetTerm() > r.Term && isVoteReq(m.GetType()) && inLease(r) && len(m.Context) != 16) ==> result == nil && node_unchanged(r)
//@   ensures #prevote-changes-nothing [C17 C07] m != nil && old(m.GetType()) == pb.MsgPreVote ==> raft_kept_but_msgs(r) && r.msgs == old(r.msgs) && log_cursors_kept(r.raftLog)
//@   ensures #stale-term-ignored [C07 C03] m != nil && old(m.GetTerm() != 0 && m.GetTerm() < r.Term) ==> result == nil && r.Term == old(r.Term) && r.Vote == old(r.Vote) && r.state == old(r.state)
//@        && r.lead == old(r.lead) && r.raftLog.committed == old(r.raftLog.committed) && r.raftLog.unstable.entries == old(r.raftLog.unstable.entries) && r.raftLog.unstable.offset == old(r.raftLog.unstable.offset)
//@        && r.msgs == old(r.msgs)
//@   ensures #vote-needs-up-to-date-log [C02 C04] m != nil && old(m.GetType()) == pb.MsgVote && r.Vote == old(m.GetFrom()) && old(m.GetFrom()) != 0 && !(r.Term == old(r.Term) && r.Vote == old(r.Vote))
//@        ==> old(candUpToDate(r, m))
//@   ensures #vote-replies-deferred [C05] m != nil && old(isVoteReq(m.GetType())) ==> r.msgs == old(r.msgs)
//@   ensures #term-rule [C07 C17] m != nil && r.Term != old(r.Term) ==> r.Term > old(r.Term)
//@        && ((old(m.GetTerm() > r.Term) && old(m.GetType()) != pb.MsgPreVote && !(old(m.GetType()) == pb.MsgPreVoteResp && !old(m.GetReject()))
//@             && (r.Term == old(m.GetTerm()) || (r.Term == old(m.GetTerm()) + 1 && r.state == StateCandidate && r.Vote == r.id)))
//@            || (r.Term == old(r.Term) + 1 && r.state == StateCandidate && r.Vote == r.id))
//@   ensures #apply-ack [C16 C08] m != nil && old(m.GetTerm() == 0 && m.GetType() == pb.MsgStorageApplyResp && len(m.Entries) > 0) ==>
//@        old(r.trk.AutoLeave && r.state == StateLeader) ||
//@        r.uncommittedSize == (old(sumpay(m.Entries, len(m.Entries))) > old(r.uncommittedSize) ? 0 : old(r.uncommittedSize) - old(sumpay(m.Entries, len(m.Entries))))
//@   ensures #prop-keeps-hardstate [C20 C07 C08] m != nil && old(m.GetType()) == pb.MsgProp && old(m.GetTerm()) == 0 ==> r.Term == old(r.Term) && r.Vote == old(r.Vote) && r.state == old(r.state)
//@        && log_cursors_kept(r.raftLog) && (log_last(r.raftLog) == old(log_last(r.raftLog)) || (old(r.state) == StateLeader && result == nil && log_last(r.raftLog) == old(log_last(r.raftLog)) + len(m.Entries)))
//@        && (log_last(r.raftLog) == old(log_last(r.raftLog)) ==> r.uncommittedSize == old(r.uncommittedSize))
//@   ensures #leader-clock-msgs [C17 C07] m != nil && old(m.GetTerm() == 0 && r.state == StateLeader && (m.GetType() == pb.MsgCheckQuorum || m.GetType() == pb.MsgBeat)) ==> r.Term == old(r.Term) && r.Vote == old(r.Vote)
//@        && (r.state == StateLeader || (old(m.GetType()) == pb.MsgCheckQuorum && r.state == StateFollower && r.lead == 0))
//@   ensures #wf m != nil ==> wf_raft(r)
//@   ensures #typestate m != nil ==> typestate(r)
//@   ensures #reads-wf [C11] m != nil ==> reads_wf(r)
//@   ensures #leader-inv [C06] m != nil && r.state == StateLeader ==> wf_leader(r)

//@ -- ------------------------------------------------------------------------------------------
//@ -- raft.go: logical clock

//@ func raft.raft.tickElection [C07 C17 C02]
//@   requires node_inv(r) && node_inv_assumed(r)
//@   requires #a-arith r.electionElapsed < 2147483648
//@   requires #role r.state != StateLeader
//@   ensures #hs [C07] hs_monotone(r)
//@   ensures #no-campaign-before-timeout [C17] old(!(r.promotable() && r.electionElapsed + 1 >= r.randomizedElectionTimeout)) ==> r.Term == old(r.Term) && r.Vote == old(r.Vote) && r.state == old(r.state)
//@        && r.electionElapsed == old(r.electionElapsed) + 1 && r.msgs == old(r.msgs) && r.msgsAfterAppend == old(r.msgsAfterAppend)
//@   ensures #term-at-most-plus-one [C02 C07] r.Term == old(r.Term) || (r.Term == old(r.Term) + 1 && r.state == StateCandidate && r.Vote == r.id)
//@   ensures #wf node_inv(r)

//@ -- tickHeartbeat is not under contract yet: its second Step call needs the assumed node invariants (node_inv_assumed) re-established
//@ -- by the first, which the Step contract does not provide.

//@ -- ------------------------------------------------------------------------------------------
//@ -- rawnode.go / node.go: what a Ready hands out (first part of the API layer; acceptReady/Advance are not under contract yet)

//@ pred hsEqual(a *pb.HardState, b *pb.HardState) := a.GetTerm() == b.GetTerm() && a.GetVote() == b.GetVote() && a.GetCommit() == b.GetCommit()
//@ -- the package-level emptyState is an all-zero HardState that nothing writes (global initial value; not derivable from a function body)
//@ pred empty_state_zero() := emptyState != nil && emptyState.GetTerm() == 0 && emptyState.GetVote() == 0 && emptyState.GetCommit() == 0
//@ pred wf_rawnode(rn *RawNode) := rn != nil && rn.raft != nil && wf_raft(rn.raft) && rn.prevHardSt != nil && rn.prevSoftSt != nil && empty_state_zero()

//@ func raft.isHardStateEqual [C07]
//@   pure
//@   ensures result <==> hsEqual(a, b)
//@ func raft.IsEmptyHardState [C07]
//@   pure
//@   requires #globals empty_state_zero()
//@   ensures result <==> (st == nil || (st.GetTerm() == 0 && st.GetVote() == 0 && st.GetCommit() == 0))
//@ func raft.MustSync [C05]
//@   pure
//@   ensures #def [C05] result <==> (entsnum != 0 || st.GetVote() != prevst.GetVote() || st.GetTerm() != prevst.GetTerm())

//@ func raft.RawNode.HasReady [C05 C07 C02]
//@   requires wf_rawnode(rn)
//@   requires #size-accounting [C14] rn.raft.raftLog.applyingEntsPaused || rn.raft.raftLog.applyingEntsSize < rn.raft.raftLog.maxApplyingEntsSize
//@   -- every change of the hard state (term, vote or commit) makes the node ready: a vote cannot stay unpersisted unnoticed
//@   ensures #hardstate-change-is-ready [C07 C02 C05] (rn.raft.Term != rn.prevHardSt.GetTerm() || rn.raft.Vote != rn.prevHardSt.GetVote() || rn.raft.raftLog.committed != rn.prevHardSt.GetCommit())
//@        && !(rn.raft.Term == 0 && rn.raft.Vote == 0 && rn.raft.raftLog.committed == 0) ==> result
//@   ensures #messages-are-ready [C05] len(rn.raft.msgs) > 0 || len(rn.raft.msgsAfterAppend) > 0 ==> result
//@   ensures #unstable-is-ready [C05] rn.raft.raftLog.hasNextUnstableEnts() ==> result
//@   ensures #unchanged node_unchanged(rn.raft) && rn.prevHardSt == old(rn.prevHardSt)

//@ pred unstableTail(l *raftLog, s []*pb.Entry) := (l.unstable.offsetInProgress == l.unstable.offset + len(l.unstable.entries) ==> len(s) == 0)
//@     && (l.unstable.offsetInProgress < l.unstable.offset + len(l.unstable.entries) ==> s.arr == l.unstable.entries.arr
//@           && s.off == l.unstable.entries.off + (l.unstable.offsetInProgress - l.unstable.offset)
//@           && len(s) == len(l.unstable.entries) - (l.unstable.offsetInProgress - l.unstable.offset))
//@ func raft.RawNode.readyWithoutAccept [C05 C07 C08 C02]
//@   requires wf_rawnode(rn)
//@   requires #a-arith rn.raft.raftLog.applyingEntsSize < 4611686018427387904
//@   reveal wf_raftLog, wf_unstable, wf_storage
//@   case rn.asyncStorageWrites
//@   case !rn.asyncStorageWrites
//@   requires #size-accounting [C14] rn.raft.raftLog.applyingEntsPaused || rn.raft.raftLog.applyingEntsSize < rn.raft.raftLog.maxApplyingEntsSize
//@   -- the whole not-yet-in-progress unstable tail is handed out for persistence (never a size-limited part of it)
//@   ensures #entries-all-unstable [C05 C03] unstableTail(rn.raft.raftLog, result.Entries)
//@   -- the hard state is handed out exactly when it differs from what the application last received
//@   ensures #hardstate-iff-changed [C07 C02 C05] (result.HardState == nil) <==> (rn.raft.Term == rn.prevHardSt.GetTerm() && rn.raft.Vote == rn.prevHardSt.GetVote() && rn.raft.raftLog.committed == rn.prevHardSt.GetCommit())
//@   ensures #hardstate-values [C07] result.HardState != nil ==> result.HardState.GetTerm() == rn.raft.Term && result.HardState.GetVote() == rn.raft.Vote && result.HardState.GetCommit() == rn.raft.raftLog.committed
//@   ensures #must-sync [C05] result.MustSync <==> (len(result.Entries) != 0 || rn.raft.Vote != rn.prevHardSt.GetVote() || rn.raft.Term != rn.prevHardSt.GetTerm())
//@   ensures #immediate-first [C05] len(result.Messages) >= len(rn.raft.msgs) && (!rn.asyncStorageWrites ==> (forall p int :: {elem(result.Messages, p)} result.Messages.off <= p && p < result.Messages.off + len(rn.raft.msgs)
//@        ==> elem(result.Messages, p) == oldelem(rn.raft.msgs, old(rn.raft.msgs.off) + (p - result.Messages.off))))
//@   ensures #async-deferred-not-direct [C05] rn.asyncStorageWrites ==> len(result.Messages) <= len(rn.raft.msgs) + 2
//@        && (forall j int :: len(rn.raft.msgs) <= j && j < len(result.Messages) ==> result.Messages[j].GetType() == pb.MsgStorageAppend || result.Messages[j].GetType() == pb.MsgStorageApply)
//@   -- async mode: the storage-append request carries exactly what this Ready asks to persist (entries, the hard state when there is one, the snapshot when there is one)
//@   ensures #async-append-carries-state [C05 C09] rn.asyncStorageWrites && len(result.Messages) > len(rn.raft.msgs) && result.Messages[len(rn.raft.msgs)].GetType() == pb.MsgStorageAppend ==>
//@        result.Messages[len(rn.raft.msgs)].Entries == result.Entries
//@        && (result.Snapshot != nil && snapIndex(result.Snapshot) != 0 ==> result.Messages[len(rn.raft.msgs)].Snapshot == result.Snapshot)
//@        && (result.HardState != nil && !(result.HardState.GetTerm() == 0 && result.HardState.GetVote() == 0 && result.HardState.GetCommit() == 0) ==>
//@              result.Messages[len(rn.raft.msgs)].GetTerm() == result.HardState.GetTerm() && result.Messages[len(rn.raft.msgs)].GetVote() == result.HardState.GetVote()
//@              && result.Messages[len(rn.raft.msgs)].GetCommit() == result.HardState.GetCommit())
//@   ensures #async-append-needed [C05] rn.asyncStorageWrites && (len(result.Entries) > 0 || (result.Snapshot != nil && snapIndex(result.Snapshot) != 0) || len(rn.raft.msgsAfterAppend) > 0) ==>
//@        len(result.Messages) > len(rn.raft.msgs) && result.Messages[len(rn.raft.msgs)].GetType() == pb.MsgStorageAppend
//@   ensures #committed-batch [C08] ready_committed_wf(rn, result.CommittedEntries)
//@   ensures #wf wf_rawnode(rn)
//@   ensures #unchanged node_unchanged(rn.raft) && rn.prevHardSt == old(rn.prevHardSt) && rn.prevSoftSt == old(rn.prevSoftSt) && rn.stepsOnAdvance == old(rn.stepsOnAdvance)
//@   loop 1 invariant #batch ready_committed_wf(rn, rd.CommittedEntries)
//@   loop 1 invariant #wf wf_rawnode(rn)
//@   loop 1 invariant #range 0 <= iter && iter <= len(rn.raft.msgsAfterAppend) && len(rd.Messages) >= len(rn.raft.msgs) && node_unchanged(rn.raft)
//@   loop 1 invariant #prefix forall p int :: {elem(rd.Messages, p)} rd.Messages.off <= p && p < rd.Messages.off + len(rn.raft.msgs)
//@        ==> elem(rd.Messages, p) == oldelem(rn.raft.msgs, old(rn.raft.msgs.off) + (p - rd.Messages.off))

//@ -- what acceptReady relies on about the Ready it is given (each conjunct is a postcondition of readyWithoutAccept or a consequence of
//@ -- nextCommittedEnts' contract): the committed batch ends within (applying, committed] and its size fits the accounting
//@ pred ready_committed_wf(rn *RawNode, ents []*pb.Entry) := len(ents) > 0 ==> ents[len(ents) - 1] != nil
//@     && rn.raft.raftLog.applying <= eindex(ents[len(ents) - 1]) && eindex(ents[len(ents) - 1]) <= rn.raft.raftLog.committed
//@     && rn.raft.raftLog.applyingEntsSize + sumsize(ents, len(ents)) < 18446744073709551616

//@ func raft.RawNode.acceptReady [C05 C07 C08 C14]
//@   requires wf_rawnode(rn)
//@   requires #from-ready [C14] ready_committed_wf(rn, rd.CommittedEntries)
//@   -- usage (documented): in synchronous mode every accepted Ready is followed by Advance before the next one
//@   requires #advance-called [C14] !rn.asyncStorageWrites ==> len(rn.stepsOnAdvance) == 0
//@   case rn.asyncStorageWrites
//@   case !rn.asyncStorageWrites
//@   ensures #outboxes-handed-over [C05] len(rn.raft.msgs) == 0 && len(rn.raft.msgsAfterAppend) == 0
//@   ensures #async-nothing-stepped [C05] rn.asyncStorageWrites ==> rn.stepsOnAdvance == old(rn.stepsOnAdvance)
//@   -- synchronous mode: the node's own deferred acknowledgements (and only messages addressed to itself) wait for Advance
//@   ensures #self-acks-wait-for-advance [C05] !rn.asyncStorageWrites ==> len(rn.stepsOnAdvance) <= old(len(rn.raft.msgsAfterAppend)) + 2
//@   ensures #hardstate-remembered [C07] old(rd.HardState != nil && !(rd.HardState.GetTerm() == 0 && rd.HardState.GetVote() == 0 && rd.HardState.GetCommit() == 0)) ==> rn.prevHardSt == old(rd.HardState)
//@   ensures #hardstate-kept [C07] old(rd.HardState == nil) ==> rn.prevHardSt == old(rn.prevHardSt)
//@   ensures #apply-cursor [C08] old(len(rd.CommittedEntries) > 0) ==> rn.raft.raftLog.applying == old(eindex(rd.CommittedEntries[len(rd.CommittedEntries) - 1]))
//@   ensures #apply-cursor-kept [C08] old(len(rd.CommittedEntries) == 0) ==> rn.raft.raftLog.applying == old(rn.raft.raftLog.applying)
//@   ensures #unstable-in-progress [C05] len(rn.raft.raftLog.unstable.entries) > 0 ==> rn.raft.raftLog.unstable.offsetInProgress == rn.raft.raftLog.unstable.offset + len(rn.raft.raftLog.unstable.entries)
//@   ensures #rest rn.raft.Term == old(rn.raft.Term) && rn.raft.Vote == old(rn.raft.Vote) && rn.raft.state == old(rn.raft.state) && rn.raft.raftLog.committed == old(rn.raft.raftLog.committed)
//@        && rn.raft.raftLog.applied == old(rn.raft.raftLog.applied) && rn.raft.raftLog.unstable.entries == old(rn.raft.raftLog.unstable.entries)
//@   ensures #wf wf_rawnode(rn)
//@   loop 1 invariant #collect 0 <= iter && iter <= len(rn.raft.msgsAfterAppend) && len(rn.stepsOnAdvance) <= iter
//@   loop 1 invariant #wf wf_rawnode(rn)
//@   loop 1 invariant #kept rn.raft.msgsAfterAppend == old(rn.raft.msgsAfterAppend)
//@        && rn.raft.msgs == old(rn.raft.msgs) && rn.raft.raftLog == old(rn.raft.raftLog) && log_cursors_kept(rn.raft.raftLog) && rn.raft.Term == old(rn.raft.Term) && rn.raft.Vote == old(rn.raft.Vote)
//@        && rn.raft.state == old(rn.raft.state) && rn.raft.raftLog.unstable.entries == old(rn.raft.raftLog.unstable.entries) && rn.raft.raftLog.unstable.offset == old(rn.raft.raftLog.unstable.offset)
//@   loop 1 invariant #prev (entry(rd).HardState != nil && !old(entry(rd).HardState.GetTerm() == 0 && entry(rd).HardState.GetVote() == 0 && entry(rd).HardState.GetCommit() == 0) ? rn.prevHardSt == entry(rd).HardState : rn.prevHardSt == old(rn.prevHardSt))
//@   loop 1 invariant #batch ready_committed_wf(rn, entry(rd).CommittedEntries) && rd.CommittedEntries == entry(rd).CommittedEntries

//@ func raft.RawNode.Ready [C05 C07 C08]
//@   requires wf_rawnode(rn)
//@   reveal wf_raftLog, wf_unstable
//@   requires #size-accounting [C14] rn.raft.raftLog.applyingEntsPaused || rn.raft.raftLog.applyingEntsSize < rn.raft.raftLog.maxApplyingEntsSize
//@   requires #a-arith rn.raft.raftLog.applyingEntsSize < 4611686018427387904
//@   requires #advance-called [C14] !rn.asyncStorageWrites ==> len(rn.stepsOnAdvance) == 0
//@   ensures #outboxes-handed-over [C05] len(rn.raft.msgs) == 0 && len(rn.raft.msgsAfterAppend) == 0
//@   ensures #entries-all-unstable [C05 C03] len(result.Entries) == old(len(rn.raft.raftLog.unstable.entries) - (rn.raft.raftLog.unstable.offsetInProgress - rn.raft.raftLog.unstable.offset))
//@        && (len(result.Entries) > 0 ==> result.Entries.arr == old(rn.raft.raftLog.unstable.entries.arr)
//@              && result.Entries.off == old(rn.raft.raftLog.unstable.entries.off + (rn.raft.raftLog.unstable.offsetInProgress - rn.raft.raftLog.unstable.offset)))
//@   ensures #hardstate-iff-changed [C07 C02 C05] (result.HardState == nil) <==> old(rn.raft.Term == rn.prevHardSt.GetTerm() && rn.raft.Vote == rn.prevHardSt.GetVote() && rn.raft.raftLog.committed == rn.prevHardSt.GetCommit())
//@   ensures #hardstate-remembered [C07] result.HardState != nil && !(rn.raft.Term == 0 && rn.raft.Vote == 0 && rn.raft.raftLog.committed == 0) ==> rn.prevHardSt == result.HardState
//@   ensures #apply-cursor [C08] len(result.CommittedEntries) > 0 ==> rn.raft.raftLog.applying == eindex(result.CommittedEntries[len(result.CommittedEntries) - 1])
//@   ensures #rest rn.raft.Term == old(rn.raft.Term) && rn.raft.Vote == old(rn.raft.Vote) && rn.raft.state == old(rn.raft.state) && rn.raft.raftLog.committed == old(rn.raft.raftLog.committed)
//@   ensures #wf wf_rawnode(rn)

//@ -- ------------------------------------------------------------------------------------------
//@ -- start-up: newRaft establishes the node invariant from a consistent Storage (base case of the per-call invariants).
//@ -- E-storage-consistent (assumed of the Storage implementation and the application that filled it): InitialState does not fail, the
//@ -- persisted hard state is empty or has its commit index inside the stored log, the ConfState is one this library produced, and the
//@ -- storage snapshot ends where the stored log begins.
//@ ufun st_hs_term(s Storage) uint64
//@ ufun st_hs_vote(s Storage) uint64
//@ ufun st_hs_commit(s Storage) uint64
//@ func raft.Storage.InitialState
//@   modifies alloc F$raftpb.HardState, alloc F$raftpb.ConfState, alloc C$uint64, alloc C$bool, alloc E$uint64
//@   ensures #no-error result2 == nil && result0 != nil && result1 != nil && confStateOK(result1)
//@   ensures #hard-state result0.GetTerm() == st_hs_term(self) && result0.GetVote() == st_hs_vote(self) && result0.GetCommit() == st_hs_commit(self)
//@   ensures #consistent (st_hs_term(self) == 0 && st_hs_vote(self) == 0 && st_hs_commit(self) == 0)
//@        || (st_hs_commit(self) + 1 >= st_first(self) && st_hs_commit(self) <= st_last(self) && st_hs_term(self) < 9223372036854775808)
//@ func raft.newLogWithSize [C18 C14 C08]
//@   requires #storage [C14] wf_storage(storage) && st_snapindex(storage) + 1 == st_first(storage)
//@   reveal wf_raftLog, wf_unstable, wf_storage, termsMonotone
//@   ensures #fresh result != nil && fresh(result) && wf_raftLog(result)
//@   ensures #cursors [C08] result.committed == st_first(storage) - 1 && result.applying == result.committed && result.applied == result.committed
//@        && log_last(result) == st_last(storage) && result.storage == storage && result.unstable.snapshot == nil && len(result.unstable.entries) == 0
//@        && result.maxApplyingEntsSize == maxApplyingEntsSize && result.applyingEntsSize == 0 && !result.applyingEntsPaused
//@ func raft.getLogger
//@   trusted
//@   pure
//@   ensures !isnil(result)
//@ pred config_valid(c *Config) := c.ID != 0 && c.ID != 18446744073709551615 && c.ID != 18446744073709551614 && c.HeartbeatTick > 0 && c.ElectionTick > c.HeartbeatTick
//@     && c.ElectionTick <= 1073741824 && !isnil(c.Storage) && c.MaxInflightMsgs > 0 && (c.MaxInflightBytes == 0 || c.MaxInflightBytes >= c.MaxSizePerMsg)
//@     && !(c.ReadOnlyOption == ReadOnlyLeaseBased && !c.CheckQuorum)
//@ func raft.newRaft [C07 C14 C02 C16]
//@   requires c != nil
//@   requires #config-valid [C14] config_valid(c)
//@   requires #storage-consistent [C14] wf_storage(c.Storage) && st_snapindex(c.Storage) + 1 == st_first(c.Storage)
//@   requires #globals empty_state_zero()
//@   requires #applied-in-range [C14] c.Applied == 0 || (c.Applied + 1 >= st_first(c.Storage) && c.Applied <= st_hs_commit(c.Storage))
//@   reveal wf_raftLog, wf_unstable, wf_storage, wf_trk, trk_distinct, wf_readOnly
//@   loop 1 invariant #range 0 <= iter
//@   ensures #result result != nil && fresh(result)
//@   ensures #hard-state-restored [C07 C02] result.Term == st_hs_term(c.Storage) && result.Vote == st_hs_vote(c.Storage)
//@   ensures #follower [C02] result.state == StateFollower && result.lead == 0 && result.id == c.ID
//@   ensures #limits [C16] result.trk.MaxInflight == c.MaxInflightMsgs
//@   ensures #node-inv [C14] wf_raft(result) && typestate(result) && result.trk.MaxInflight >= 1 && reads_wf(result)

//@ func raft.NewRawNode [C07 C14 C19]
//@   requires config != nil
//@   requires #config-valid [C14] config_valid(config)
//@   requires #storage-consistent [C14] wf_storage(config.Storage) && st_snapindex(config.Storage) + 1 == st_first(config.Storage)
//@   requires #globals empty_state_zero()
//@   requires #applied-in-range [C14] config.Applied == 0 || (config.Applied + 1 >= st_first(config.Storage) && config.Applied <= st_hs_commit(config.Storage))
//@   ensures #ok result1 == nil && result0 != nil && fresh(result0) && wf_rawnode(result0) && result0.asyncStorageWrites == config.AsyncStorageWrites
//@   ensures #restored [C07 C02] result0.raft.Term == st_hs_term(config.Storage) && result0.raft.Vote == st_hs_vote(config.Storage) && result0.raft.state == StateFollower
//@   -- the restored hard state counts as already emitted: the first Ready does not hand it out again, and any change is measured against it
//@   ensures #hard-state-remembered [C07 C19] result0.prevHardSt.GetTerm() == result0.raft.Term && result0.prevHardSt.GetVote() == result0.raft.Vote
//@        && result0.prevHardSt.GetCommit() == result0.raft.raftLog.committed && fresh(result0.prevHardSt)
//@   ensures #node-inv [C14] typestate(result0.raft) && result0.raft.trk.MaxInflight >= 1 && reads_wf(result0.raft)

//@ -- ------------------------------------------------------------------------------------------
//@ -- RawNode.Step: the network-facing entry point filters messages that may only originate locally and responses from unknown peers
//@ -- before raft.Step sees them (C14: such a message never reaches a handler; the node is untouched).
//@ -- T-globals: the message-class tables are package-level array literals that nothing writes; their contents are read off the literals.
//@ pred localMsgType(t pb.MessageType) := t == pb.MsgHup || t == pb.MsgBeat || t == pb.MsgUnreachable || t == pb.MsgSnapStatus || t == pb.MsgCheckQuorum
//@     || t == pb.MsgStorageAppend || t == pb.MsgStorageAppendResp || t == pb.MsgStorageApply || t == pb.MsgStorageApplyResp
//@ pred responseMsgType(t pb.MessageType) := t == pb.MsgAppResp || t == pb.MsgVoteResp || t == pb.MsgHeartbeatResp || t == pb.MsgUnreachable || t == pb.MsgReadIndexResp
//@     || t == pb.MsgPreVoteResp || t == pb.MsgStorageAppendResp || t == pb.MsgStorageApplyResp
//@ pred localTarget(id uint64) := id == 18446744073709551615 || id == 18446744073709551614
//@ func raft.IsLocalMsg [C14]
//@   trusted
//@   pure
//@   ensures #table result <==> localMsgType(msgt)
//@ func raft.IsResponseMsg [C14]
//@   trusted
//@   pure
//@   ensures #table result <==> responseMsgType(msgt)
//@ func raft.RawNode.Step [C14 C20 C07]
//@   requires wf_rawnode(rn) && m != nil
//@   requires #node-inv node_inv(rn.raft) && node_inv_assumed(rn.raft)
//@   requires #msg-wf [C14] step_msg_wf(rn.raft, m)
//@   ensures #local-from-network-rejected [C14] old(localMsgType(m.GetType()) && !localTarget(m.GetFrom())) ==> result == ErrStepLocalMsg && node_unchanged(rn.raft)
//@   ensures #response-from-stranger-rejected [C14] old(!(localMsgType(m.GetType()) && !localTarget(m.GetFrom())) && responseMsgType(m.GetType()) && !localTarget(m.GetFrom())
//@        && !(has(rn.raft.trk.Progress, m.GetFrom()) && rn.raft.trk.Progress[m.GetFrom()] != nil)) ==> result == ErrStepPeerNotFound && node_unchanged(rn.raft)
//@   ensures #wf wf_rawnode(rn) && hs_monotone(rn.raft) && rn.raft == old(rn.raft)

//@ -- ------------------------------------------------------------------------------------------
//@ -- The local operations of the API (C14's quantifier: Campaign, Propose, ReadIndex, TransferLeader, ReportUnreachable, ReportSnapshot,
//@ -- ForgetLeader at any node in any role): each builds its message here, so that message's well-formedness (step_msg_wf) is PROVED
//@ -- at the call of raft.Step instead of being assumed of the environment; what remains assumed is the node invariant.
//@ pred api_ready(rn *RawNode) := wf_rawnode(rn) && node_inv(rn.raft) && node_inv_assumed(rn.raft)
//@ func raft.RawNode.Campaign [C14 C02]
//@   requires api_ready(rn)
//@   ensures #wf wf_rawnode(rn) && hs_monotone(rn.raft) && rn.raft == old(rn.raft)
//@ func raft.RawNode.ForgetLeader [C14 C17]
//@   requires api_ready(rn)
//@   ensures #wf wf_rawnode(rn) && hs_monotone(rn.raft) && rn.raft == old(rn.raft)
//@ func raft.RawNode.TransferLeader [C14 C17]
//@   requires api_ready(rn)
//@   -- a follower that knows a leader has a term (the leader stamped the message it learnt it from); not part of wf_raft yet
//@   requires #known-leader-has-term [C14] rn.raft.lead != 0 ==> rn.raft.Term >= 1
//@   ensures #wf wf_rawnode(rn) && hs_monotone(rn.raft) && rn.raft == old(rn.raft)
//@ func raft.RawNode.ReportUnreachable [C14 C16]
//@   requires api_ready(rn)
//@   ensures #wf wf_rawnode(rn) && hs_monotone(rn.raft) && rn.raft == old(rn.raft)
//@ func raft.RawNode.ReportSnapshot [C14 C16]
//@   requires api_ready(rn)
//@   ensures #wf wf_rawnode(rn) && hs_monotone(rn.raft) && rn.raft == old(rn.raft)
//@ func raft.RawNode.ReadIndex [C14 C11]
//@   requires api_ready(rn)
//@   -- a follower that knows a leader has a term (the leader stamped the message it learnt it from); not part of wf_raft yet
//@   requires #known-leader-has-term [C14] rn.raft.lead != 0 ==> rn.raft.Term >= 1
//@   ensures #wf wf_rawnode(rn) && hs_monotone(rn.raft) && rn.raft == old(rn.raft)
//@ func raft.RawNode.Propose [C14 C20]
//@   requires api_ready(rn)
//@   -- a follower that knows a leader has a term (the leader stamped the message it learnt it from); not part of wf_raft yet
//@   requires #known-leader-has-term [C14] rn.raft.lead != 0 ==> rn.raft.Term >= 1
//@   ensures #wf wf_rawnode(rn) && hs_monotone(rn.raft) && rn.raft == old(rn.raft)

//@ -- ProposeConfChange: confChangeToMsg and pb.MarshalConfChange are inlined (proto.Marshal and ConfChangeI.AsV1/AsV2 by their assumed
//@ -- contracts); the well-formedness of the stepped MsgProp is proved, not assumed, as for Propose.
//@ func raft.RawNode.ProposeConfChange [C14 C20 C10]
//@   requires api_ready(rn)
//@   requires #known-leader-has-term [C14] rn.raft.lead != 0 ==> rn.raft.Term >= 1
//@   ensures #wf wf_rawnode(rn) && hs_monotone(rn.raft) && rn.raft == old(rn.raft)
//@   ensures #keeps-hardstate [C20 C10] rn.raft.Term == old(rn.raft.Term) && rn.raft.Vote == old(rn.raft.Vote) && rn.raft.state == old(rn.raft.state)
