package main

import (
	"bytes"
	"context"
	"crypto/sha256"
	"fmt"
	"os"
	"os/exec"
	"path/filepath"
	"regexp"
	"strings"
	"sync"
	"time"
)

// answerCacheDir: where proved scripts are remembered ("" = off); set by the check/verify commands.
var answerCacheDir = ""

func initAnswerCache() {
	if os.Getenv("VERIF_NO_CACHE") != "" {
		return
	}
	d := filepath.Join(verifDir, ".cache", "smt")
	if os.MkdirAll(d, 0755) == nil {
		answerCacheDir = d
	}
}

type solverSpec struct {
	name string
	args func(timeoutS int, file string) []string
	pre  string
	lean bool // feed the script without the value-range axioms of heap versions that are neither entry, current nor in the goal
}

// leanSolver races next to the first solver on the reduced script (fewer assumptions: an unsat answer is still a proof;
// other answers of it are ignored).
// useLean: measured on this code base the extra racer does not pay for the CPU it takes from the other solvers; off.
const useLean = false

var leanSolver = solverSpec{"z3-new(lean)", func(t int, f string) []string { return []string{"z3-new", fmt.Sprintf("-T:%d", t), f} }, "", true}

var solvers = []solverSpec{
	{"z3-new", func(t int, f string) []string { return []string{"z3-new", fmt.Sprintf("-T:%d", t), f} }, "", false},
	{"cvc5", func(t int, f string) []string {
		return []string{"cvc5", fmt.Sprintf("--tlimit=%d", t*1000), "--full-saturate-quant", f}
	}, "(set-logic ALL)\n", false},
	{"z3", func(t int, f string) []string { return []string{"z3", fmt.Sprintf("-T:%d", t), f} }, "", false},
}

func (sc *Script) render(ob *Obligation, pre string, model bool) string {
	return sc.renderOpt(ob, pre, model, false)
}

// renderOpt: with qfOnly the quantified facts are left out (fewer assumptions: an unsat answer is still a proof).
func (sc *Script) renderOpt(ob *Obligation, pre string, model bool, qfOnly bool) string {
	return sc.renderSel(ob, pre, model, qfOnly, false)
}

var heapverSymRe = regexp.MustCompile(`\(select (\|[^|]+\|) [oa]\)`)

// renderSel: with lean the value-range/allocation axioms of heap versions (tag heapver) are kept only for the entry
// versions, the versions current at the obligation and versions mentioned by the goal. Leaving facts out never makes an
// unsat answer wrong; an undecided lean attempt is followed by the full one.
func (sc *Script) renderSel(ob *Obligation, pre string, model bool, qfOnly bool, lean bool) string {
	var b strings.Builder
	if model {
		b.WriteString("(set-option :produce-models true)\n")
	}
	b.WriteString(pre)
	for _, d := range sc.decls[:ob.NDecls] {
		b.WriteString(d)
		b.WriteByte('\n')
	}
	for i, f := range sc.facts[:ob.NFacts] {
		// path slicing: facts emitted in blocks that cannot reach the obligation's block are irrelevant to it
		if ob.Reach != nil && sc.factBlk[i] >= 0 && !ob.Reach[sc.factBlk[i]] {
			continue
		}
		if qfOnly && (strings.Contains(f, "(forall ") || strings.Contains(f, "(exists ")) {
			continue
		}
		if lean && ob.Cur != nil && strings.Contains(f, "_heapver ") {
			if m := heapverSymRe.FindStringSubmatch(f); m != nil {
				sym := m[1]
				if !strings.HasSuffix(sym, "@0|") && !ob.Cur[sym] && !strings.Contains(ob.Goal, sym) && !strings.Contains(ob.Guard, sym) {
					continue
				}
			}
		}
		b.WriteString("(assert ")
		b.WriteString(f)
		b.WriteString(")\n")
	}
	b.WriteString("(assert " + ob.Guard + ")\n")
	b.WriteString("(assert (not " + ob.Goal + "))\n")
	b.WriteString("(check-sat)\n")
	if model {
		b.WriteString("(get-model)\n")
	}
	return b.String()
}

func runSolver(ctx context.Context, sp solverSpec, script string, timeoutS int, dir string) (status, out string, secs float64) {
	f, err := os.CreateTemp(dir, "q-*.smt2")
	if err != nil {
		return "error", err.Error(), 0
	}
	defer os.Remove(f.Name())
	f.WriteString(script)
	f.Close()
	args := sp.args(timeoutS, f.Name())
	cctx, cancel := context.WithTimeout(ctx, time.Duration(timeoutS+5)*time.Second)
	defer cancel()
	cmd := exec.CommandContext(cctx, args[0], args[1:]...)
	var buf bytes.Buffer
	cmd.Stdout = &buf
	cmd.Stderr = &buf
	t0 := time.Now()
	cmd.Run()
	secs = time.Since(t0).Seconds()
	out = buf.String()
	first := strings.TrimSpace(strings.SplitN(out, "\n", 2)[0])
	switch first {
	case "unsat", "sat", "unknown":
		return first, out, secs
	case "timeout":
		return "timeout", out, secs
	}
	if ctx.Err() != nil {
		return "cancelled", out, secs
	}
	if cctx.Err() != nil || strings.Contains(out, "timeout") || strings.Contains(out, "interrupted") {
		return "timeout", out, secs
	}
	return "error", out, secs
}

type solverAnswer struct {
	sp     solverSpec
	status string
	out    string
	secs   float64
}

// discharge races the solver portfolio on one obligation: z3-new starts first; if it has not answered after a
// short head start the other solvers join. The first definite answer (unsat/sat) wins. With all=true every solver runs to completion.
func discharge(sc *Script, ob *Obligation, timeoutS int, dir string, all bool) {
	if ob.Status != "" {
		return
	}
	// answer cache: an `unsat` answer is a property of the SMT script alone, so it is remembered under the SHA-256 of the
	// complete script (declarations, every fact, guard and goal as generated from the current tree). Only proofs are
	// remembered; anything else is decided afresh. The evidence counts reused answers separately. VERIF_NO_CACHE=1 disables.
	var ckey string
	if answerCacheDir != "" && ob.Kind != "canary" && !all {
		sum := sha256.Sum256([]byte(sc.render(ob, "", false)))
		ckey = filepath.Join(answerCacheDir, fmt.Sprintf("%x", sum[:]))
		if os.Getenv("GOVC_CACHE_DEBUG") != "" {
			fmt.Fprintf(os.Stderr, "cachekey %s %x\n", ob.ID, sum[:6])
		}
		if data, err := os.ReadFile(ckey); err == nil {
			f := strings.Fields(string(data))
			if len(f) >= 2 && f[0] == "unsat" {
				ob.Status, ob.Solver, ob.Cached = "unsat", f[1], true
				ob.Output = "answer reused: identical SMT script was proved by " + f[1]
				return
			}
		}
		defer func() {
			if ob.Status == "unsat" && ob.Solver != "trivial" {
				tmp := fmt.Sprintf("%s.%d.tmp", ckey, os.Getpid())
				if os.WriteFile(tmp, []byte(fmt.Sprintf("unsat %s %.3f\n", ob.Solver, ob.TimeS)), 0644) == nil {
					os.Rename(tmp, ckey)
				}
			}
		}()
	}
	splittable := len(sc.caseTerms) > 0 && ob.Case == "" && ob.Kind != "canary" && ob.Kind != "cases"
	if !splittable || all || timeoutS <= 25 {
		dischargeCore(sc, ob, timeoutS, dir, all, true, true)
		return
	}
	// functions with a case split: a short attempt on the whole obligation, then the cases, then the long attempt
	t0 := time.Now()
	dischargeCore(sc, ob, 12, dir, false, true, false)
	if ob.Status == "unsat" || ob.Status == "sat" {
		return
	}
	note := ob.Output
	ob.Status = ""
	if splitCases(sc, ob, timeoutS, dir) {
		ob.TimeS = time.Since(t0).Seconds()
		ob.Output = note + "; " + ob.Output
		return
	}
	if ob.Status == "sat" {
		return
	}
	note += "; " + ob.Output
	ob.Status = ""
	dischargeCore(sc, ob, timeoutS, dir, false, false, false)
	ob.TimeS = time.Since(t0).Seconds()
	ob.Output = note + "; " + ob.Output
}

// splitCases decides an obligation under each case condition of the contract; true if every case is unsat.
func splitCases(sc *Script, ob *Obligation, timeoutS int, dir string) bool {
	// the cases are independent queries: run them side by side (they are usually small once the case condition is known)
	type caseRes struct {
		i   int
		sub *Obligation
	}
	results := make([]*Obligation, len(sc.caseTerms))
	ch := make(chan caseRes, len(sc.caseTerms))
	for i, ct := range sc.caseTerms {
		sub := *ob
		sub.Status, sub.Solver, sub.Output, sub.Model = "", "", "", ""
		sub.Case = fmt.Sprint(i + 1)
		sub.Guard = sAnd(ob.Guard, ct)
		go func(i int, sub *Obligation) {
			dischargeCore(sc, sub, timeoutS, dir, false, true, false)
			ch <- caseRes{i, sub}
		}(i, &sub)
	}
	for range sc.caseTerms {
		r := <-ch
		results[r.i] = r.sub
	}
	allUnsat := true
	var subNotes []string
	for i, sub := range results {
		subNotes = append(subNotes, fmt.Sprintf("case %d: %s (%.2fs)", i+1, sub.Status, sub.TimeS))
		if sub.Status != "unsat" {
			allUnsat = false
			if sub.Status == "sat" && ob.Status != "sat" {
				ob.Status, ob.Solver, ob.Model = "sat", sub.Solver, sub.Model
			}
		}
	}
	ob.Output = "case split: " + strings.Join(subNotes, ", ")
	if allUnsat {
		ob.Status, ob.Solver = "unsat", "case-split"
	} else if ob.Status == "" {
		ob.Status = "unknown"
	}
	return allUnsat
}

func dischargeCore(sc *Script, ob *Obligation, timeoutS int, dir string, all bool, qf bool, split bool) {
	if ob.Status != "" {
		return
	}
	ctx, cancel := context.WithCancel(context.Background())
	defer cancel()
	answers := make(chan solverAnswer, len(solvers)+1)
	start := func(sp solverSpec) {
		go func() {
			script := sc.renderSel(ob, sp.pre, false, false, sp.lean)
			st, out, secs := runSolver(ctx, sp, script, timeoutS, dir)
			if sp.lean && st != "unsat" {
				st = "unknown" // a model of the reduced script means nothing
			}
			answers <- solverAnswer{sp, st, out, secs}
		}()
	}
	ob.Bytes = len(sc.render(ob, "", false))
	t0 := time.Now()
	// first pass: quantifier-free facts only (guard chaining, frames over named versions, opaque-atom relations)
	if qf && !all && ob.Kind != "canary" {
		qt := 4
		if timeoutS < qt {
			qt = timeoutS
		}
		st, _, secs := runSolver(ctx, solvers[0], sc.renderOpt(ob, solvers[0].pre, false, true), qt, dir)
		if st == "unsat" {
			ob.Status, ob.Solver, ob.TimeS = "unsat", solvers[0].name+"(qf)", secs
			ob.Output = fmt.Sprintf("%s(qf): unsat (%.2fs)", solvers[0].name, secs)
			return
		}
	}
	start(solvers[0])
	started := 1
	extra := 0
	if useLean && !all && ob.Kind != "canary" && ob.Cur != nil {
		start(leanSolver)
		extra = 1
	}
	headStart := time.NewTimer(1500 * time.Millisecond)
	if all {
		headStart.Reset(0)
	}
	defer headStart.Stop()
	var notes []string
	got := 0
	for got < started+extra || started < len(solvers) {
		select {
		case <-headStart.C:
			for _, sp := range solvers[started:] {
				start(sp)
			}
			started = len(solvers)
		case a := <-answers:
			got++
			notes = append(notes, fmt.Sprintf("%s: %s (%.2fs)", a.sp.name, a.status, a.secs))
			if a.status == "error" {
				notes = append(notes, strings.TrimSpace(firstLines(a.out, 3)))
			}
			if a.status == "unsat" {
				if ob.Status == "" || ob.Status == "unknown" {
					ob.Status, ob.Solver = "unsat", a.sp.name
				}
				if !all {
					ob.TimeS = time.Since(t0).Seconds()
					ob.Output = strings.Join(notes, "; ")
					return
				}
			}
			if a.status == "sat" && ob.Status != "unsat" {
				ob.Status, ob.Solver = "sat", a.sp.name
				cancel()
				_, mout, _ := runSolver(context.Background(), a.sp, sc.render(ob, a.sp.pre, true), timeoutS, dir)
				ob.Model = mout
				ob.TimeS = time.Since(t0).Seconds()
				ob.Output = strings.Join(notes, "; ")
				return
			}
			if got == started+extra && started < len(solvers) {
				// the first solver gave up early: bring in the others now
				for _, sp := range solvers[started:] {
					start(sp)
				}
				started = len(solvers)
			}
		}
	}
	ob.TimeS = time.Since(t0).Seconds()
	if ob.Status == "" {
		ob.Status = "unknown"
	}
	ob.Output = strings.Join(notes, "; ")
	// undecided as a whole: retry under each case condition of the contract (exhaustiveness is a separate obligation)
	if split && ob.Status == "unknown" && len(sc.caseTerms) > 0 && ob.Case == "" && ob.Kind != "canary" && ob.Kind != "cases" {
		note := ob.Output
		ob.Status = ""
		splitCases(sc, ob, timeoutS, dir)
		ob.TimeS = time.Since(t0).Seconds()
		ob.Output = note + "; " + ob.Output
	}
}

func firstLines(s string, n int) string {
	ls := strings.Split(s, "\n")
	if len(ls) > n {
		ls = ls[:n]
	}
	return strings.Join(ls, " | ")
}

type job struct {
	sc *Script
	ob *Obligation
}

func dischargeAll(jobs []job, timeoutS int, workers int, all bool) {
	dir, _ := os.MkdirTemp("", "govc-smt-")
	defer os.RemoveAll(dir)
	ch := make(chan job)
	var wg sync.WaitGroup
	for i := 0; i < workers; i++ {
		wg.Add(1)
		go func() {
			defer wg.Done()
			for j := range ch {
				discharge(j.sc, j.ob, timeoutS, dir, all)
			}
		}()
	}
	for _, j := range jobs {
		ch <- j
	}
	close(ch)
	wg.Wait()
}
