package main

import (
	"bytes"
	"context"
	"fmt"
	"os"
	"os/exec"
	"strings"
	"sync"
	"time"
)

type solverSpec struct {
	name string
	args func(timeoutS int, file string) []string
	pre  string
}

var solvers = []solverSpec{
	{"z3-new", func(t int, f string) []string { return []string{"z3-new", fmt.Sprintf("-T:%d", t), f} }, ""},
	{"cvc5", func(t int, f string) []string {
		return []string{"cvc5", fmt.Sprintf("--tlimit=%d", t*1000), "--full-saturate-quant", f}
	}, "(set-logic ALL)\n"},
	{"z3", func(t int, f string) []string { return []string{"z3", fmt.Sprintf("-T:%d", t), f} }, ""},
}

func (sc *Script) render(ob *Obligation, pre string, model bool) string {
	var b strings.Builder
	if model {
		b.WriteString("(set-option :produce-models true)\n")
	}
	b.WriteString(pre)
	for _, d := range sc.decls[:ob.NDecls] {
		b.WriteString(d)
		b.WriteByte('\n')
	}
	for _, f := range sc.facts[:ob.NFacts] {
		b.WriteString("(assert ")
		b.WriteString(f)
		b.WriteString(")\n")
	}
	b.WriteString("(assert " + ob.Guard + ")\n")
	b.WriteString("(assert (not " + ob.Goal + "))\n")
	b.WriteString("(check-sat)\n")
	if model {
		b.WriteString("(get-model)\n")
	}
	return b.String()
}

func runSolver(sp solverSpec, script string, timeoutS int, dir string, tag string) (status, out string, secs float64) {
	f, err := os.CreateTemp(dir, "q-*.smt2")
	if err != nil {
		return "error", err.Error(), 0
	}
	defer os.Remove(f.Name())
	f.WriteString(script)
	f.Close()
	args := sp.args(timeoutS, f.Name())
	ctx, cancel := context.WithTimeout(context.Background(), time.Duration(timeoutS+5)*time.Second)
	defer cancel()
	cmd := exec.CommandContext(ctx, args[0], args[1:]...)
	var buf bytes.Buffer
	cmd.Stdout = &buf
	cmd.Stderr = &buf
	t0 := time.Now()
	cmd.Run()
	secs = time.Since(t0).Seconds()
	out = buf.String()
	first := strings.TrimSpace(strings.SplitN(out, "\n", 2)[0])
	switch first {
	case "unsat", "sat", "unknown":
		return first, out, secs
	case "timeout":
		return "timeout", out, secs
	}
	if ctx.Err() != nil || strings.Contains(out, "timeout") || strings.Contains(out, "interrupted") {
		return "timeout", out, secs
	}
	return "error", out, secs
}

// discharge runs the portfolio on one obligation.
func discharge(sc *Script, ob *Obligation, timeoutS int, dir string, all bool) {
	if ob.Status != "" {
		return
	}
	var notes []string
	for i, sp := range solvers {
		script := sc.render(ob, sp.pre, false)
		if i == 0 {
			ob.Bytes = len(script)
		}
		status, out, secs := runSolver(sp, script, timeoutS, dir, ob.ID)
		ob.TimeS += secs
		notes = append(notes, fmt.Sprintf("%s: %s (%.2fs)", sp.name, status, secs))
		if status == "unsat" {
			ob.Status, ob.Solver = "unsat", sp.name
			if !all {
				return
			}
			continue
		}
		if status == "sat" {
			ob.Status, ob.Solver = "sat", sp.name
			// get a model
			_, mout, _ := runSolver(sp, sc.render(ob, sp.pre, true), timeoutS, dir, ob.ID)
			ob.Model = mout
			ob.Output = strings.Join(notes, "; ")
			return
		}
		if status == "error" {
			notes = append(notes, strings.TrimSpace(firstLines(out, 3)))
		}
	}
	if ob.Status == "" {
		ob.Status = "unknown"
	}
	ob.Output = strings.Join(notes, "; ")
}

func firstLines(s string, n int) string {
	ls := strings.Split(s, "\n")
	if len(ls) > n {
		ls = ls[:n]
	}
	return strings.Join(ls, " | ")
}

type job struct {
	sc *Script
	ob *Obligation
}

func dischargeAll(jobs []job, timeoutS int, workers int, all bool) {
	dir, _ := os.MkdirTemp("", "govc-smt-")
	defer os.RemoveAll(dir)
	ch := make(chan job)
	var wg sync.WaitGroup
	for i := 0; i < workers; i++ {
		wg.Add(1)
		go func() {
			defer wg.Done()
			for j := range ch {
				discharge(j.sc, j.ob, timeoutS, dir, all)
			}
		}()
	}
	for _, j := range jobs {
		ch <- j
	}
	close(ch)
	wg.Wait()
}
