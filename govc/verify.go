package main

import (
	"fmt"
	"go/types"
	"runtime/debug"
	"strings"

	"golang.org/x/tools/go/ssa"
)

type FuncResult struct {
	Key   string
	Tr    *Tr
	Err   error
	Stack string
}

// verifyFunc generates the obligations of one function under contract.
func (g *Global) verifyFunc(key string) (res *FuncResult) {
	res = &FuncResult{Key: key}
	fn := g.funcs[key]
	fc := g.contracts.Funcs[key]
	if fn == nil {
		res.Err = fmt.Errorf("function %s not found in /repo (not-generated)", key)
		return
	}
	if len(fn.Blocks) == 0 {
		res.Err = fmt.Errorf("function %s has no body", key)
		return
	}
	tr := newTr(g, fn, key, fc)
	res.Tr = tr
	tr.defaultProps = fc.Props
	for _, r := range fc.Reveal {
		tr.revealed[r] = true
	}
	defer func() {
		if r := recover(); r != nil {
			if se, ok := r.(subsetErr); ok {
				res.Err = fmt.Errorf("%s: %v (at %s; clause %.200s)", key, se, tr.posString(0), tr.curClause)
				return
			}
			res.Err = fmt.Errorf("%s: internal error: %v (at %s) while evaluating %.300s", key, r, tr.posString(0), tr.curClause)
			res.Stack = string(debug.Stack())
		}
	}()
	fr := tr.newFrame(fn, 0, true)
	tr.sc.declare("|top@0|", "() Int")
	tr.sc.fact("(< 0 |top@0|)")
	st := &State{vars: map[string]Value{}, top: "|top@0|", guard: "true"}
	env := &CEnv{vars: map[string]EV{}, st: st, old: st, pkg: g.contractPkg(key, fn)}
	for _, p := range fn.Params {
		v := tr.freshValue(p.Type(), p.Name(), st)
		fr.vals[p] = v
		env.vars[p.Name()] = EV{V: v, T: p.Type()}
	}
	if len(fn.FreeVars) > 0 {
		panic(subsetErr("closure verified as a top-level function"))
	}
	tr.specMode++
	for _, rq := range fc.Requires {
		tr.assume(st, tr.evalBool(env, rq.Expr))
	}
	tr.specMode--
	if fc.Iterates != nil && !fc.Trusted {
		tr.cbEnv = map[string]EV{}
		for k, v := range env.vars {
			tr.cbEnv[k] = v
		}
		tr.cbInit(fn, st)
	}
	// case split (contract clause "case"): the conditions are evaluated at entry; they must be exhaustive, and an obligation
	// that no solver decides as a whole is retried under each condition separately (see discharge)
	if len(fc.Cases) > 0 {
		var cts []string
		tr.specMode++
		var raw []string
		for _, c := range fc.Cases {
			raw = append(raw, tr.evalBool(env, c.Expr))
		}
		tr.specMode--
		for _, t := range raw {
			sym := tr.freshSym("case", true)
			tr.sc.fact(sEq(sym, t))
			cts = append(cts, sym)
		}
		tr.oblige(st, "cases", "exhaustive", nil, sOr(cts...), "the case conditions of the contract are exhaustive")
		tr.sc.caseTerms = cts
	}
	tr.oldState = st.clone()
	rets := tr.execBody(fr, st)
	for _, r := range rets {
		tr.curPos = r.pos
		tr.sc.curBlock = r.blk
		penv := &CEnv{vars: map[string]EV{}, st: r.st, old: tr.oldState, pkg: env.pkg}
		for k, v := range env.vars {
			penv.vars[k] = v
		}
		tr.bindResults(penv, fn.Signature, r.val)
		for _, u := range fc.Uses {
			tr.applyLemma(penv, r.st, u, nil, "")
		}
		if len(fc.Frames) > 0 {
			mods := g.modsetFor(key, fc, fn)
			fenv := &CEnv{vars: env.vars, st: tr.oldState, old: tr.oldState, pkg: env.pkg}
			for _, ff := range tr.frameFormulas(fc, mods, fenv, tr.oldState, r.st) {
				tr.oblige(r.st, "frame", ff.name, nil, ff.formula, "frame: only the listed objects are modified in "+ff.name)
			}
		}
		if tr.cbParam != nil {
			tr.cbFinal(r.st)
		}
		for _, en := range fc.Ensures {
			goal := tr.evalBool(penv, en.Expr)
			lbl := en.Label
			if lbl == "" {
				lbl = fmt.Sprintf("L%d", en.Line)
			}
			tr.oblige(r.st, "post", lbl, en.Props, goal, "postcondition: "+en.Src)
		}
	}
	if fc.Pure {
		ms := g.modsetOfFunc(fn)
		for n, mi := range ms {
			if mi.mutates && mi.sort != "" {
				st0 := &State{vars: map[string]Value{}, top: "0", guard: "true"}
				tr.oblige(st0, "frame", "pure:"+n, nil, "false", "function declared pure writes "+n)
			}
		}
	}
	return
}

func fnSummary(fn *ssa.Function) string {
	n := 0
	for _, b := range fn.Blocks {
		n += len(b.Instrs)
	}
	return fmt.Sprintf("%d blocks, %d instrs", len(fn.Blocks), n)
}

var _ = types.Typ
var _ = strings.TrimSpace
