package main

import (
	"fmt"
	"go/types"
	"strings"

	"golang.org/x/tools/go/ssa"
)

// ---------------------------------------------------------------------------------------------
// Verifying the body of an iterating function (contract clause "iterates <map>", e.g. ProgressTracker.Visit).
//
// Callers of such a function are verified against the promise "the callback is invoked once for every key of the map
// (as of the call), in ascending key order, with the map's current value for that key" (iterateCall). The body is
// verified against the same promise with a ghost log of the callback invocations:
//   * every invocation f(id, v) appends id to the log and must pass v == <map>[id] in the current state;
//   * the callback is arbitrary code: after it every heap object that existed before this function was entered, and
//     everything it may have allocated, is unknown; objects allocated by this function itself keep their contents,
//     provided none of them escapes (checked syntactically: cbEscapeCheck);
//   * at every return: the log has exactly old(len(map)) entries, is strictly ascending, and every entry was a key of
//     the map at entry. (A strictly ascending list of n keys of an n-element set visits every key exactly once:
//     elementary counting step, not re-proved in SMT.)
// Contracts refer to the log with ncalls and callid(i).

const cbN, cbID = "G$cb#n", "G$cb#id"

func (tr *Tr) cbInit(fn *ssa.Function, st *State) {
	for _, p := range fn.Params {
		if _, ok := p.Type().Underlying().(*types.Signature); ok {
			tr.cbParam = p
		}
	}
	if tr.cbParam == nil {
		panic(subsetErr("iterates: no function-typed parameter"))
	}
	if msg := cbEscapeCheck(fn, tr.cbParam); msg != "" {
		panic(subsetErr("iterates: " + msg))
	}
	st.vars[cbN] = Sc{T: "0"}
	tr.fresh++
	sym := smtName(fmt.Sprintf("%s@%d", cbID, tr.fresh))
	tr.sc.declare(sym, "() (Array Int Int)")
	tr.heapSorts[cbID] = "(Array Int Int)"
	st.vars[cbID] = Sc{T: sym}
	tr.initVars[cbID] = Sc{T: sym}
	tr.initVars[cbN] = Sc{T: "0"}
}

// cbMapRef evaluates the iterated map expression of the contract in the given state.
func (tr *Tr) cbMapRef(st *State, old *State) (string, *types.Map) {
	env := &CEnv{vars: map[string]EV{}, st: st, old: old, pkg: tr.g.contractPkg(tr.key, tr.fn)}
	for k, v := range tr.cbEnv {
		env.vars[k] = v
	}
	tr.specMode++
	mv, mt0 := tr.evalC(env, tr.fc.Iterates.Expr)
	m := tr.asSc(tr.rval(env, mv, mt0), mt0).T
	tr.specMode--
	return m, mt0.Underlying().(*types.Map)
}

func (tr *Tr) callbackCall(fr *Frame, c *ssa.CallCommon, args []Value, st *State) Value {
	if len(args) != 2 {
		panic(subsetErr("iterates: callback with other than (key, value) arguments"))
	}
	id := tr.asSc(args[0], nil).T
	// the value handed to the callback is the map's current value for the key
	m, mt := tr.cbMapRef(st, tr.oldState)
	cur, _ := tr.mapLoad(st, mt, m, id)
	tr.oblige(st, "iterates", "value-is-current", nil, tr.specEqual(args[1], cur, mt.Elem()), "the callback receives the map's current value for the key")
	// log
	n := st.vars[cbN].(Sc).T
	log := st.vars[cbID].(Sc).T
	st.vars[cbID] = Sc{T: tr.nameTerm(cbID, "(Array Int Int)", sStore(log, n, id))}
	st.vars[cbN] = Sc{T: tr.nameTerm("cbn", "Int", sAdd(n, "1"))}
	// arbitrary callee: everything is unknown afterwards except the objects this function allocated itself
	reg := tr.g.heapRegistry()
	preTop := st.top
	nt := tr.freshSym("top", false)
	tr.sc.factLocal(sLe(preTop, nt))
	tr.noteFrameTop("|top@0|")
	tr.noteFrameTop(preTop)
	for _, name := range sortedKeys(reg) {
		srt := reg[name]
		oldT := tr.heapVar(st, name, srt)
		tr.fresh++
		sym := smtName(fmt.Sprintf("%s@%d", name, tr.fresh))
		tr.sc.declare(sym, "() "+srt)
		st.vars[name] = Sc{T: sym}
		tr.sc.factLocal(fmt.Sprintf("(forall ((r Int)) (! (=> (and (<= |top@0| r) (< r %s)) (= (select %s r) (select %s r))) :pattern ((select %s r))))", preTop, sym, oldT, sym))
		tr.symTop[sym] = nt
		tr.heapVersionAxiom(name, sym, srt, nt, true)
	}
	st.top = nt
	tr.assumptions["iterating function: the callback is arbitrary code; objects allocated by the function itself do not escape (syntactic check) and keep their contents across it"] = true
	return nil
}

// cbFinal emits the obligations on the invocation log at a return point.
func (tr *Tr) cbFinal(st *State) {
	n := st.vars[cbN].(Sc).T
	log := st.vars[cbID].(Sc).T
	m0, mt := tr.cbMapRef(tr.oldState, tr.oldState)
	len0 := sSel(tr.mapLen(tr.oldState, mt), m0)
	dom0 := sSel(tr.mapDom(tr.oldState, mt), m0)
	tr.oblige(st, "iterates", "count", nil, sEq(n, len0), "the callback is invoked exactly len(map) times")
	tr.oblige(st, "iterates", "ascending", nil,
		fmt.Sprintf("(forall ((i Int) (j Int)) (! (=> (and (<= 0 i) (< i j) (< j %s)) (< (select %s i) (select %s j))) :pattern ((select %s i) (select %s j))))", n, log, log, log, log),
		"the keys are visited in strictly ascending order")
	tr.oblige(st, "iterates", "keys", nil,
		fmt.Sprintf("(forall ((i Int)) (! (=> (and (<= 0 i) (< i %s)) (select %s (select %s i))) :pattern ((select %s i))))", n, dom0, log, log),
		"every visited key is a key of the map as of the call")
}

// cbEscapeCheck: every object the function allocates (Alloc, MakeSlice, MakeMap) must be used only as a base of
// element/field addressing, slicing, loads, stores *into* it, len/cap/range, or as the argument of slices.Sort; in
// particular it is never stored anywhere, returned, captured or passed to the callback.
func cbEscapeCheck(fn *ssa.Function, cb ssa.Value) string {
	var check func(v ssa.Value, seen map[ssa.Value]bool) string
	check = func(v ssa.Value, seen map[ssa.Value]bool) string {
		if seen[v] {
			return ""
		}
		seen[v] = true
		refs := v.Referrers()
		if refs == nil {
			return ""
		}
		for _, in := range *refs {
			switch x := in.(type) {
			case *ssa.IndexAddr:
				if x.X == v {
					if msg := check(x, seen); msg != "" {
						return msg
					}
					continue
				}
			case *ssa.FieldAddr:
				if msg := check(x, seen); msg != "" {
					return msg
				}
				continue
			case *ssa.Slice:
				if x.X == v {
					if msg := check(x, seen); msg != "" {
						return msg
					}
					continue
				}
			case *ssa.Phi:
				if msg := check(x, seen); msg != "" {
					return msg
				}
				continue
			case *ssa.UnOp:
				if x.Op.String() == "*" {
					continue // load
				}
			case *ssa.Store:
				if x.Addr == v && x.Val != v {
					continue
				}
			case *ssa.Range, *ssa.DebugRef:
				continue
			case *ssa.Index:
				continue
			case *ssa.Call:
				if b, ok := x.Call.Value.(*ssa.Builtin); ok && (b.Name() == "len" || b.Name() == "cap") {
					continue
				}
				if f, ok := x.Call.Value.(*ssa.Function); ok {
					fo := f
					if f.Origin() != nil {
						fo = f.Origin()
					}
					if fo.Pkg != nil && fo.Pkg.Pkg.Path() == "slices" && strings.HasPrefix(fo.Name(), "Sort") {
						continue
					}
				}
			}
			return fmt.Sprintf("locally allocated object %s may escape through %T", v.Name(), in)
		}
		return ""
	}
	for _, b := range fn.Blocks {
		for _, in := range b.Instrs {
			switch x := in.(type) {
			case *ssa.Alloc:
				if msg := check(x, map[ssa.Value]bool{}); msg != "" {
					return msg
				}
			case *ssa.MakeSlice:
				if msg := check(x, map[ssa.Value]bool{}); msg != "" {
					return msg
				}
			case *ssa.MakeMap:
				if msg := check(x, map[ssa.Value]bool{}); msg != "" {
					return msg
				}
			case *ssa.MakeClosure:
				return "the function builds closures"
			}
		}
	}
	return ""
}
