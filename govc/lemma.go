package main

import (
	"fmt"
	"go/types"
	"runtime/debug"
)

// Ghost lemmas: "lemma name(params) requires.. ensures.. decreases.. use [cond ==>] name(args)".
// A lemma is proved by the engine: assume requires; every use asserts the used lemma's precondition (and, for a
// recursive use, that the variant decreases and is bounded below) and then assumes its postcondition; finally the
// lemma's own ensures must follow. Function contracts may invoke proved lemmas with "use" clauses (at return points).

func splitUse(e CExpr) (cond CExpr, call *CCall, err error) {
	if b, ok := e.(*CBinary); ok && b.Op == "==>" {
		c, ok := b.R.(*CCall)
		if !ok {
			return nil, nil, fmt.Errorf("use: expected lemma call after ==>")
		}
		return b.L, c, nil
	}
	c, ok := e.(*CCall)
	if !ok {
		return nil, nil, fmt.Errorf("use: expected lemma call")
	}
	return nil, c, nil
}

// applyLemma instantiates a lemma at a use site.
func (tr *Tr) applyLemma(env *CEnv, st *State, use *Clause, self *Lemma, selfDecr string) {
	condE, call, err := splitUse(use.Expr)
	if err != nil {
		panic(subsetErr(err.Error()))
	}
	id, ok := call.Fun.(*CIdent)
	if !ok {
		panic(subsetErr("use: lemma name expected"))
	}
	lm := tr.g.contracts.Lemmas[id.Name]
	if lm == nil {
		panic(subsetErr("use of unknown lemma " + id.Name))
	}
	if len(call.Args) != len(lm.Params) {
		panic(subsetErr("use " + id.Name + ": wrong number of arguments"))
	}
	cond := "true"
	if condE != nil {
		tr.specMode++
		cond = tr.evalBool(env, condE)
		tr.specMode--
	}
	lenv := &CEnv{vars: map[string]EV{}, st: env.st, old: env.old, pkg: tr.g.pkgOfFile(lm.File)}
	tr.specMode++
	for i, p := range lm.Params {
		pt := tr.resolveCType(lenv, p.Typ)
		v, t := tr.evalC(env, call.Args[i])
		if pt != arrType {
			v = tr.rval(env, v, t)
		}
		if p.Typ.Name == "int" && !p.Typ.Ptr && !p.Typ.Slice {
			pt = nil
		}
		lenv.vars[p.Name] = EV{V: v, T: pt}
	}
	tr.specMode--
	tr.assumptions["lemma "+lm.Name+" (proved by the engine, see lemma."+lm.Name+" obligations)"] = true
	for _, rq := range lm.Requires {
		tr.specMode++
		g := tr.evalBool(lenv, rq.Expr)
		tr.specMode--
		tr.oblCount["use:"+lm.Name]++
		tr.oblige(st, "lemma-pre", fmt.Sprintf("%s.L%d@%d", lm.Name, rq.Line, tr.oblCount["use:"+lm.Name]), use.Props, sImp(cond, g), "precondition of lemma "+lm.Name+": "+rq.Src)
	}
	if self != nil && lm == self {
		if lm.Decr == nil {
			panic(subsetErr("recursive lemma " + lm.Name + " needs a decreases clause"))
		}
		tr.specMode++
		d, _ := tr.evalC(lenv, lm.Decr.Expr)
		tr.specMode--
		tr.oblCount["use:"+lm.Name]++
		tr.oblige(st, "decr", fmt.Sprintf("%s@%d", lm.Name, tr.oblCount["use:"+lm.Name]), use.Props,
			sImp(cond, fmt.Sprintf("(and (<= 0 %s) (< %s %s))", selfDecr, d.(Sc).T, selfDecr)), "lemma variant decreases and is bounded below")
	}
	tr.specMode++
	for _, en := range lm.Ensures {
		tr.assume(st, sImp(cond, tr.evalBool(lenv, en.Expr)))
	}
	tr.specMode--
}

// verifyLemma proves one lemma.
func (g *Global) verifyLemma(name string) (res *FuncResult) {
	key := "lemma." + name
	res = &FuncResult{Key: key}
	lm := g.contracts.Lemmas[name]
	if lm == nil {
		res.Err = fmt.Errorf("unknown lemma %s", name)
		return
	}
	tr := newTr(g, nil, key, nil)
	tr.lemmaProof = true
	res.Tr = tr
	tr.defaultProps = lm.Props
	defer func() {
		if r := recover(); r != nil {
			if se, ok := r.(subsetErr); ok {
				res.Err = fmt.Errorf("%s: %v (clause %.200s)", key, se, tr.curClause)
				return
			}
			res.Err = fmt.Errorf("%s: internal error: %v while evaluating %.300s", key, r, tr.curClause)
			res.Stack = string(debug.Stack())
		}
	}()
	tr.sc.declare("|top@0|", "() Int")
	tr.sc.fact("(< 0 |top@0|)")
	st := &State{vars: map[string]Value{}, top: "|top@0|", guard: "true"}
	tr.oldState = st
	env := &CEnv{vars: map[string]EV{}, st: st, old: st, pkg: g.pkgOfFile(lm.File)}
	for _, p := range lm.Params {
		pt := tr.resolveCType(env, p.Typ)
		if pt == arrType {
			tr.fresh++
			sym := smtName(fmt.Sprintf("%s!%d", p.Name, tr.fresh))
			tr.sc.declare(sym, "() (Array Int Int)")
			env.vars[p.Name] = EV{V: Ar{T: sym}, T: arrType}
			continue
		}
		var v Value
		if p.Typ.Name == "int" && !p.Typ.Ptr && !p.Typ.Slice {
			v = Sc{T: tr.freshSym(p.Name, false)}
			env.vars[p.Name] = EV{V: v, T: nil}
			continue
		}
		v = tr.freshValue(pt, p.Name, st)
		env.vars[p.Name] = EV{V: v, T: pt}
	}
	tr.specMode++
	for _, rq := range lm.Requires {
		tr.assume(st, tr.evalBool(env, rq.Expr))
	}
	selfDecr := ""
	if lm.Decr != nil {
		d, _ := tr.evalC(env, lm.Decr.Expr)
		selfDecr = d.(Sc).T
	}
	tr.specMode--
	for _, u := range lm.Uses {
		tr.applyLemma(env, st, u, lm, selfDecr)
	}
	for _, en := range lm.Ensures {
		tr.specMode++
		goal := tr.evalBool(env, en.Expr)
		tr.specMode--
		lbl := en.Label
		if lbl == "" {
			lbl = fmt.Sprintf("L%d", en.Line)
		}
		tr.oblige(st, "lemma", lbl, en.Props, goal, "lemma "+name+" ensures: "+en.Src)
	}
	return
}

var _ = types.Typ

// verifyStable proves the stability lemma of an opaque spec: its value does not change when the heap is extended by
// allocations (every heap variable it reads is replaced by a version that agrees on all references allocated before).
func (g *Global) verifyStable(name string) (res *FuncResult) {
	key := "stable." + name
	res = &FuncResult{Key: key}
	sd := g.contracts.Specs[name]
	if sd == nil || !sd.Opaque {
		res.Err = fmt.Errorf("unknown opaque spec %s", name)
		return
	}
	tr := newTr(g, nil, key, nil)
	res.Tr = tr
	defer func() {
		if r := recover(); r != nil {
			if se, ok := r.(subsetErr); ok {
				res.Err = fmt.Errorf("%s: %v (clause %.200s)", key, se, tr.curClause)
				return
			}
			res.Err = fmt.Errorf("%s: internal error: %v while evaluating %.300s", key, r, tr.curClause)
			res.Stack = string(debug.Stack())
		}
	}()
	tr.sc.declare("|top@0|", "() Int")
	tr.sc.fact("(< 0 |top@0|)")
	st0 := &State{vars: map[string]Value{}, top: "|top@0|", guard: "true"}
	tr.oldState = st0
	env0 := &CEnv{vars: map[string]EV{}, st: st0, old: st0, pkg: g.pkgOfFile(sd.File)}
	for _, p := range sd.Params {
		pt := tr.resolveCType(env0, p.Typ)
		if p.Typ.Name == "int" && !p.Typ.Ptr && !p.Typ.Slice && p.Typ.Key == nil {
			env0.vars[p.Name] = EV{V: Sc{T: tr.freshSym(p.Name, false)}, T: nil}
			continue
		}
		env0.vars[p.Name] = EV{V: tr.freshValue(pt, p.Name, st0), T: pt}
	}
	tr.specMode++
	v0, _ := tr.evalC(env0, sd.Body)
	tr.specMode--
	// second state: every heap variable read so far gets an allocation-extended version
	st1 := &State{vars: map[string]Value{}, guard: "true"}
	nt := tr.freshSym("top", false)
	tr.sc.fact(sLe("|top@0|", nt))
	st1.top = nt
	for _, name := range sortedKeys(tr.heapSorts) {
		sort := tr.heapSorts[name]
		old := tr.initVars[name].(Sc).T
		tr.fresh++
		sym := smtName(fmt.Sprintf("%s@%d", name, tr.fresh))
		tr.sc.declare(sym, "() "+sort)
		tr.sc.fact(fmt.Sprintf("(forall ((r Int)) (! (=> (< r |top@0|) (= (select %s r) (select %s r))) :pattern ((select %s r))))", sym, old, sym))
		st1.vars[name] = Sc{T: sym}
		tr.symTop[sym] = nt
		tr.allocParent[sym] = old
		tr.heapVersionAxiom(name, sym, sort, nt)
	}
	tr.noteFrameTop("|top@0|")
	env1 := &CEnv{vars: env0.vars, st: st1, old: st1, pkg: env0.pkg}
	tr.specMode++
	v1, _ := tr.evalC(env1, sd.Body)
	tr.specMode--
	// heap variables first touched while evaluating in the second state are unconstrained in both: relate them too
	s0, ok0 := v0.(Sc)
	s1, ok1 := v1.(Sc)
	if !ok0 || !ok1 {
		panic(subsetErr("stable: opaque spec must be scalar"))
	}
	goal := sEq(s0.T, s1.T)
	if s0.Bool {
		goal = sImp(s0.T, s1.T)
	}
	tr.oblige(st1, "stable", name, nil, goal, "opaque spec "+name+" is stable under allocation (its definition only reads objects allocated before)")
	return
}
