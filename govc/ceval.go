package main

import (
	"fmt"
	"go/constant"
	"go/types"
	"os"
	"strings"

	"golang.org/x/tools/go/ssa"
)

// EV is an evaluated contract expression: a symbolic value and its Go type (nil = mathematical integer / unknown).
type EV struct {
	V Value
	T types.Type
}

// arrType is the pseudo Go type of mathematical integer arrays in contracts.
var arrType types.Type = types.NewNamed(types.NewTypeName(0, nil, "arr", nil), types.NewStruct(nil, nil), nil)

type CEnv struct {
	vars map[string]EV
	st   *State
	old  *State
	pkg  *types.Package
	// frame context for loop invariants
	fr    *Frame
	at    *ssa.BasicBlock
	over  map[ssa.Value]Value
	loop  *loopInfo
	atIdx int // >0: names defined before this instruction index in block `at` are visible too
}

func (e *CEnv) with(name string, v EV) *CEnv {
	n := *e
	n.vars = make(map[string]EV, len(e.vars)+1)
	for k, x := range e.vars {
		n.vars[k] = x
	}
	n.vars[name] = v
	return &n
}

func (tr *Tr) frameEnv(fr *Frame, st *State, at *ssa.BasicBlock, over map[ssa.Value]Value, li *loopInfo) *CEnv {
	old := tr.oldState
	if old == nil {
		old = st
	}
	var pkg *types.Package
	if fr.fn.Pkg != nil {
		pkg = fr.fn.Pkg.Pkg
	} else if fr.fn.Origin() != nil && fr.fn.Origin().Pkg != nil {
		pkg = fr.fn.Origin().Pkg.Pkg
	}
	return &CEnv{vars: map[string]EV{}, st: st, old: old, pkg: pkg, fr: fr, at: at, over: over, loop: li, atIdx: -1}
}

func (tr *Tr) evalBool(env *CEnv, e CExpr) string {
	tr.evalDepth++
	if tr.evalDepth == 1 {
		tr.curClause = e.String()
	}
	defer func() { tr.evalDepth-- }()
	v, _ := tr.evalC(env, e)
	s, ok := v.(Sc)
	if !ok || !s.Bool {
		panic(subsetErr("contract expression is not Boolean: " + e.String()))
	}
	return s.T
}

func (tr *Tr) evalInt(env *CEnv, e CExpr) string {
	v, _ := tr.evalC(env, e)
	s, ok := v.(Sc)
	if !ok || s.Bool {
		if lv, ok := v.(LocV); ok {
			return tr.asRef(lv)
		}
		panic(subsetErr("contract expression is not an integer/reference: " + e.String()))
	}
	return s.T
}

func boolV(t string) Value { return Sc{T: t, Bool: true} }

func (tr *Tr) evalC(env *CEnv, e CExpr) (Value, types.Type) {
	switch x := e.(type) {
	case *CNum:
		n := x.Val
		if strings.HasPrefix(n, "0x") {
			var u uint64
			fmt.Sscanf(n, "0x%x", &u)
			n = fmt.Sprint(u)
		}
		return Sc{T: n}, nil
	case *CBool:
		if x.Val {
			return boolV("true"), types.Typ[types.Bool]
		}
		return boolV("false"), types.Typ[types.Bool]
	case *CNil:
		return Sc{T: "0"}, types.Typ[types.UntypedNil]
	case *CStr:
		return Sc{T: tr.g.stringConst(tr, x.Val)}, types.Typ[types.String]
	case *CIdent:
		return tr.evalIdent(env, x.Name)
	case *COld:
		n := *env
		n.st = env.old
		return tr.evalC(&n, x.X)
	case *CUnary:
		switch x.Op {
		case "!":
			return boolV(sNot(tr.evalBool(env, x.X))), types.Typ[types.Bool]
		case "-":
			return Sc{T: "(- " + tr.evalInt(env, x.X) + ")"}, nil
		case "&":
			v, t := tr.evalC(env, x.X)
			if lv, ok := v.(LocV); ok {
				return Sc{T: tr.asRef(lv)}, types.NewPointer(t)
			}
			panic(subsetErr("& of non-addressable contract expression " + x.X.String()))
		}
	case *CBinary:
		return tr.evalBinary(env, x)
	case *CIte:
		c := tr.evalBool(env, x.C)
		a, ta := tr.evalC(env, x.A)
		b, tb := tr.evalC(env, x.B)
		if ta == nil {
			ta = tb
		}
		a, b = tr.rval(env, a, ta), tr.rval(env, b, ta)
		return tr.iteValue(c, a, b), ta
	case *CSelect:
		return tr.evalSelect(env, x)
	case *CIndex:
		return tr.evalIndex(env, x)
	case *CSlice:
		v, t := tr.evalC(env, x.X)
		s := tr.asSl(tr.rval(env, v, t))
		lo, hi := "0", s.Len
		if x.Lo != nil {
			lo = tr.evalInt(env, x.Lo)
		}
		if x.Hi != nil {
			hi = tr.evalInt(env, x.Hi)
		}
		return Sl{s.Arr, sAdd(s.Off, lo), sSub(hi, lo), sSub(s.Cap, lo)}, t
	case *CCall:
		return tr.evalCall(env, x)
	case *CQuant:
		return tr.evalQuant(env, x)
	}
	panic(subsetErr(fmt.Sprintf("contract expression %T %s", e, e.String())))
}

func (tr *Tr) iteValue(c string, a, b Value) Value {
	switch x := a.(type) {
	case Sc:
		y, ok := b.(Sc)
		if !ok {
			y = Sc{T: tr.asRef(b)}
		}
		return Sc{T: sIte(c, x.T, y.T), Bool: x.Bool}
	case Sl:
		y := b.(Sl)
		return Sl{sIte(c, x.Arr, y.Arr), sIte(c, x.Off, y.Off), sIte(c, x.Len, y.Len), sIte(c, x.Cap, y.Cap)}
	case If:
		y := b.(If)
		return If{sIte(c, x.Tag, y.Tag), sIte(c, x.Val, y.Val)}
	case St:
		y := b.(St)
		out := St{F: make([]Value, len(x.F))}
		for i := range x.F {
			out.F[i] = tr.iteValue(c, x.F[i], y.F[i])
		}
		return out
	case LocV:
		return Sc{T: sIte(c, tr.asRef(a), tr.asRef(b))}
	}
	panic(subsetErr(fmt.Sprintf("ite on %T", a)))
}

// rval turns an lvalue (LocV) into the value stored there.
func (tr *Tr) rval(env *CEnv, v Value, t types.Type) Value {
	if lv, ok := v.(LocV); ok {
		return tr.loadAt(env.st, lv.L, lv.Typ)
	}
	return v
}

func (tr *Tr) evalIdent(env *CEnv, name string) (Value, types.Type) {
	if os.Getenv("GOVC_DEBUG") == name {
		fn := "?"
		if env.fr != nil {
			fn = env.fr.fn.Name()
		}
		_, inVars := env.vars[name]
		fmt.Fprintf(os.Stderr, "evalIdent %s in frame %s: inVars=%v\n", name, fn, inVars)
	}
	if ev, ok := env.vars[name]; ok {
		return ev.V, ev.T
	}
	if env.fr != nil {
		if d, ok := env.fr.lookupNameAt(name, env.at, env.atIdx-1+1); ok {
			if os.Getenv("GOVC_DEBUG") == name {
				fmt.Fprintf(os.Stderr, "  own-frame def %v %T isAddr=%v in %s\n", d.val, d.val, d.isAddr, d.val.Parent().Name())
			}
			saved := env.fr.over
			env.fr.over = env.over
			v := tr.val(env.fr, d.val)
			env.fr.over = saved
			t := d.val.Type()
			if d.isAddr {
				pt := t.Underlying().(*types.Pointer).Elem()
				return tr.loadAt(env.st, tr.locOf(v, pt), pt), pt
			}
			return v, t
		}
		if name == "iter" && env.loop != nil && env.loop.enum != nil {
			return env.st.vars[env.loop.enum.counter], nil
		}
		if name == "iter" || name == "slice_iter" {
			// range-over-slice loop (slice_iter: also usable inside a nested range-over-map loop): the hidden index phi holds the index of the last completed iteration (-1 initially)
			if d, ok := env.fr.lookupName("rangeindex", env.at); ok {
				saved := env.fr.over
				env.fr.over = env.over
				v := tr.val(env.fr, d.val)
				env.fr.over = saved
				return Sc{T: sAdd(tr.asSc(v, nil).T, "1")}, nil
			}
		}
	}
	// a loop invariant of a function that is being inlined (a callee without contract, a closure) may name variables of
	// the functions it is inlined into: they are looked up at the position of the pending call, innermost caller first
	if env.fr != nil {
		for pf := env.fr.parent; pf != nil; pf = pf.parent {
			if pf.curBlk == nil {
				continue
			}
			if d, ok := pf.lookupNameAt(name, pf.curBlk, pf.curIdx); ok {
				// a variable captured by a closure lives in a cell: its current contents, not the value of its last
				// syntactic definition in this frame, is what the name means while the callee runs
				if !d.isAddr {
					for _, cand := range pf.names[name] {
						if _, isAlloc := cand.val.(*ssa.Alloc); isAlloc && cand.isAddr {
							d = cand
							break
						}
					}
				}
				v := tr.val(pf, d.val)
				t := d.val.Type()
				if d.isAddr {
					pt := t.Underlying().(*types.Pointer).Elem()
					rv := tr.loadAt(env.st, tr.locOf(v, pt), pt)
					if os.Getenv("GOVC_DEBUG") != "" {
						fmt.Fprintf(os.Stderr, "parent-scope %s -> %v (loc %v)\n", name, rv, tr.locOf(v, pt))
					}
					return rv, pt
				}
				return v, t
			}
		}
	}
	// package-level constant or variable
	if env.pkg != nil {
		if obj := env.pkg.Scope().Lookup(name); obj != nil {
			return tr.evalObj(env, obj)
		}
	}
	if obj := types.Universe.Lookup(name); obj != nil {
		if c, ok := obj.(*types.Const); ok {
			return tr.constVal(c.Val(), c.Type()), c.Type()
		}
	}
	panic(subsetErr("unknown identifier in contract: " + name))
}

func (tr *Tr) constVal(v constant.Value, t types.Type) Value {
	switch v.Kind() {
	case constant.Bool:
		if constant.BoolVal(v) {
			return boolV("true")
		}
		return boolV("false")
	case constant.Int:
		return Sc{T: smtInt(v.ExactString())}
	case constant.String:
		return Sc{T: tr.g.stringConst(tr, constant.StringVal(v))}
	}
	panic(subsetErr("constant kind in contract"))
}

func (tr *Tr) evalObj(env *CEnv, obj types.Object) (Value, types.Type) {
	switch o := obj.(type) {
	case *types.Const:
		return tr.constVal(o.Val(), o.Type()), o.Type()
	case *types.Var:
		l := Loc{Kind: LVar, Prefix: "G$" + o.Pkg().Name() + "." + o.Name()}
		return tr.loadGlobal(env.st, l, o.Type()), o.Type()
	}
	panic(subsetErr("unsupported object in contract: " + obj.Name()))
}

func (tr *Tr) evalBinary(env *CEnv, x *CBinary) (Value, types.Type) {
	bt := types.Typ[types.Bool]
	switch x.Op {
	case "&&":
		return boolV(sAnd(tr.evalBool(env, x.L), tr.evalBool(env, x.R))), bt
	case "||":
		return boolV(sOr(tr.evalBool(env, x.L), tr.evalBool(env, x.R))), bt
	case "==>":
		return boolV(sImp(tr.evalBool(env, x.L), tr.evalBool(env, x.R))), bt
	case "<==>":
		return boolV(sEq(tr.evalBool(env, x.L), tr.evalBool(env, x.R))), bt
	case "==", "!=":
		a, ta := tr.evalC(env, x.L)
		b, tb := tr.evalC(env, x.R)
		if ta == nil || ta == types.Typ[types.UntypedNil] {
			ta = tb
		}
		a, b = tr.rval(env, a, ta), tr.rval(env, b, ta)
		eq := tr.specEqual(a, b, ta)
		if x.Op == "!=" {
			eq = sNot(eq)
		}
		return boolV(eq), bt
	case "<", "<=", ">", ">=":
		a, b := tr.evalInt(env, x.L), tr.evalInt(env, x.R)
		switch x.Op {
		case "<":
			return boolV(sLt(a, b)), bt
		case "<=":
			return boolV(sLe(a, b)), bt
		case ">":
			return boolV(sLt(b, a)), bt
		default:
			return boolV(sLe(b, a)), bt
		}
	case "+":
		return Sc{T: sAdd(tr.evalInt(env, x.L), tr.evalInt(env, x.R))}, nil
	case "-":
		return Sc{T: sSub(tr.evalInt(env, x.L), tr.evalInt(env, x.R))}, nil
	case "*":
		a, b := tr.evalInt(env, x.L), tr.evalInt(env, x.R)
		if !isLiteral(a) && !isLiteral(b) {
			panic(subsetErr("non-linear multiplication in contract"))
		}
		return Sc{T: "(* " + a + " " + b + ")"}, nil
	case "/":
		a, b := tr.evalInt(env, x.L), tr.evalInt(env, x.R)
		if !isLiteral(b) {
			panic(subsetErr("division by non-literal in contract"))
		}
		return Sc{T: "(div " + a + " " + b + ")"}, nil
	case "%":
		a, b := tr.evalInt(env, x.L), tr.evalInt(env, x.R)
		return Sc{T: "(mod " + a + " " + b + ")"}, nil
	}
	panic(subsetErr("binary operator " + x.Op))
}

// specEqual: equality in contracts. Slices compare (arr, off, len); nil literal is the 0 reference.
func (tr *Tr) specEqual(a, b Value, t types.Type) string {
	switch x := a.(type) {
	case Sl:
		switch y := b.(type) {
		case Sl:
			return sAnd(sEq(x.Arr, y.Arr), sEq(x.Off, y.Off), sEq(x.Len, y.Len))
		case Sc:
			return sEq(x.Arr, y.T) // == nil
		}
	case If:
		switch y := b.(type) {
		case If:
			return sAnd(sEq(x.Tag, y.Tag), sEq(x.Val, y.Val))
		case Sc:
			return sEq(x.Tag, y.T) // == nil
		}
	case St:
		y := b.(St)
		var cs []string
		for i := range x.F {
			cs = append(cs, tr.specEqual(x.F[i], y.F[i], nil))
		}
		return sAnd(cs...)
	case Sc:
		switch y := b.(type) {
		case Sc:
			return sEq(x.T, y.T)
		case Sl, If:
			return tr.specEqual(b, a, t)
		case LocV:
			return sEq(x.T, tr.asRef(y))
		}
	case LocV:
		return tr.specEqual(Sc{T: tr.asRef(x)}, b, t)
	case Ar:
		if y, ok := b.(Ar); ok {
			return sEq(x.T, y.T)
		}
	}
	panic(subsetErr(fmt.Sprintf("equality between %T and %T", a, b)))
}

func derefType(t types.Type) (types.Type, bool) {
	if t == nil {
		return nil, false
	}
	if p, ok := t.Underlying().(*types.Pointer); ok {
		return p.Elem(), true
	}
	return t, false
}

func (tr *Tr) evalSelect(env *CEnv, x *CSelect) (Value, types.Type) {
	// package-qualified identifier?
	if id, ok := x.X.(*CIdent); ok {
		if _, isVar := env.vars[id.Name]; !isVar {
			if env.fr == nil || !tr.frameHasName(env, id.Name) {
				if p := tr.g.pkgByName(env.pkg, id.Name); p != nil {
					obj := p.Scope().Lookup(x.Sel)
					if obj == nil {
						panic(subsetErr("unknown " + id.Name + "." + x.Sel))
					}
					return tr.evalObj(env, obj)
				}
			}
		}
	}
	v, t := tr.evalC(env, x.X)
	if t == nil {
		panic(subsetErr("selector on untyped contract expression " + x.String()))
	}
	// slice pseudo-fields
	if s, ok := tr.rvalMaybe(env, v, t).(Sl); ok {
		switch x.Sel {
		case "len":
			return Sc{T: s.Len}, nil
		case "cap":
			return Sc{T: s.Cap}, nil
		case "arr":
			return Sc{T: s.Arr}, nil
		case "off":
			return Sc{T: s.Off}, nil
		}
	}
	st, isPtr := derefType(t)
	stt, ok := st.Underlying().(*types.Struct)
	if !ok {
		panic(subsetErr("selector " + x.Sel + " on non-struct " + t.String()))
	}
	idx, ft, path := findField(stt, x.Sel)
	if idx < 0 {
		panic(subsetErr("no field " + x.Sel + " in " + st.String()))
	}
	// walk embedded path
	cur, curT, curPtr := v, st, isPtr
	for _, step := range path {
		cur, curT, curPtr = tr.selectField(env, cur, curT, curPtr, step)
	}
	_ = ft
	return cur, curT
}

func (tr *Tr) rvalMaybe(env *CEnv, v Value, t types.Type) Value {
	if lv, ok := v.(LocV); ok && kindOf(lv.Typ) == kSlice {
		return tr.loadAt(env.st, lv.L, lv.Typ)
	}
	return v
}

func (tr *Tr) frameHasName(env *CEnv, name string) bool {
	_, ok := env.fr.lookupName(name, env.at)
	return ok
}

// selectField selects field index i of struct type st from value v (a pointer/location if isPtr, else a struct value
// or location). Returns the field as an lvalue where possible.
func (tr *Tr) selectField(env *CEnv, v Value, st types.Type, isPtr bool, i int) (Value, types.Type, bool) {
	stt := st.Underlying().(*types.Struct)
	f := stt.Field(i)
	ft := f.Type()
	if isPtr {
		ref := tr.asRef(tr.rval(env, v, types.NewPointer(st)))
		lv := LocV{L: Loc{Kind: LField, Prefix: fieldPrefix(st, f.Name()), Ref: ref}, Typ: ft}
		return tr.fieldResult(env, lv, ft)
	}
	switch x := v.(type) {
	case St:
		nt, np := derefType(ft)
		_ = nt
		return x.F[i], ft, np
	case LocV:
		// struct stored at a location
		var ref string
		switch x.L.Kind {
		case LField:
			ref = tr.subRefOfLoc(x.L)
		case LCell:
			ref = x.L.Ref
		case LElem:
			lv := LocV{L: Loc{Kind: LElem, Prefix: x.L.Prefix + "." + f.Name(), Ref: x.L.Ref, Idx: x.L.Idx}, Typ: ft}
			return tr.fieldResult(env, lv, ft)
		default:
			sv := tr.loadAt(env.st, x.L, st).(St)
			_, np := derefType(ft)
			return sv.F[i], ft, np
		}
		lv := LocV{L: Loc{Kind: LField, Prefix: fieldPrefix(st, f.Name()), Ref: ref}, Typ: ft}
		return tr.fieldResult(env, lv, ft)
	}
	panic(subsetErr(fmt.Sprintf("field selection on %T", v)))
}

// fieldResult: scalar-like fields are loaded immediately; struct/array fields stay locations.
func (tr *Tr) fieldResult(env *CEnv, lv LocV, ft types.Type) (Value, types.Type, bool) {
	k := kindOf(ft)
	if k == kStruct || k == kArray {
		return lv, ft, false
	}
	v := tr.loadAt(env.st, lv.L, ft)
	_, isPtr := derefType(ft)
	return v, ft, isPtr
}

// findField finds a (possibly promoted) field; returns the index path.
func findField(st *types.Struct, name string) (int, types.Type, []int) {
	for i := 0; i < st.NumFields(); i++ {
		if st.Field(i).Name() == name {
			return i, st.Field(i).Type(), []int{i}
		}
	}
	for i := 0; i < st.NumFields(); i++ {
		f := st.Field(i)
		if !f.Embedded() {
			continue
		}
		et, _ := derefType(f.Type())
		if es, ok := et.Underlying().(*types.Struct); ok {
			if j, ft, p := findField(es, name); j >= 0 {
				return j, ft, append([]int{i}, p...)
			}
		}
	}
	return -1, nil, nil
}

func (tr *Tr) evalIndex(env *CEnv, x *CIndex) (Value, types.Type) {
	v, t := tr.evalC(env, x.X)
	if a, ok := v.(Ar); ok {
		return Sc{T: sSel(a.T, tr.evalInt(env, x.I))}, nil
	}
	if t == nil {
		panic(subsetErr("index on untyped contract expression " + x.String()))
	}
	switch u := t.Underlying().(type) {
	case *types.Slice:
		s := tr.asSl(tr.rval(env, v, t))
		i := tr.evalInt(env, x.I)
		l := Loc{Kind: LElem, Prefix: elemPrefix(u.Elem()), Ref: s.Arr, Idx: sAdd(s.Off, i)}
		if kindOf(u.Elem()) == kStruct {
			return LocV{L: l, Typ: u.Elem()}, u.Elem()
		}
		return tr.loadAt(env.st, l, u.Elem()), u.Elem()
	case *types.Map:
		m := tr.asSc(tr.rval(env, v, t), t).T
		k := tr.evalInt(env, x.I)
		val, _ := tr.mapLoad(env.st, u, m, k)
		return val, u.Elem()
	case *types.Array:
		i := tr.evalInt(env, x.I)
		switch a := v.(type) {
		case St:
			if isLiteral(i) {
				var n int
				fmt.Sscan(i, &n)
				return a.F[n], u.Elem()
			}
			acc := a.F[len(a.F)-1]
			for j := len(a.F) - 2; j >= 0; j-- {
				acc = tr.iteValue(sEq(i, fmt.Sprint(j)), a.F[j], acc)
			}
			return acc, u.Elem()
		case LocV:
			ref := tr.asRef(a)
			l := Loc{Kind: LElem, Prefix: elemPrefix(u.Elem()), Ref: ref, Idx: i}
			return tr.loadAt(env.st, l, u.Elem()), u.Elem()
		}
	}
	panic(subsetErr("index on " + t.String()))
}

func (tr *Tr) resolveCType(env *CEnv, ct CType) types.Type {
	if ct.Key != nil {
		var m types.Type = types.NewMap(tr.resolveCType(env, *ct.Key), tr.resolveCType(env, *ct.Elem))
		if ct.Slice {
			m = types.NewSlice(m)
		}
		return m
	}
	var base types.Type
	if ct.Pkg == "" {
		if obj := types.Universe.Lookup(ct.Name); obj != nil {
			base = obj.Type()
		} else if env.pkg != nil {
			if obj := env.pkg.Scope().Lookup(ct.Name); obj != nil {
				base = obj.Type()
			}
		}
		if base == nil && ct.Name == "ref" {
			base = types.Typ[types.UnsafePointer]
		}
		if base == nil && ct.Name == "arr" {
			base = arrType
		}
	} else if p := tr.g.pkgByName(env.pkg, ct.Pkg); p != nil {
		if obj := p.Scope().Lookup(ct.Name); obj != nil {
			base = obj.Type()
		}
	}
	if base == nil {
		panic(subsetErr("unknown type in contract: " + ct.String()))
	}
	if ct.Ptr {
		base = types.NewPointer(base)
	}
	if ct.Slice {
		base = types.NewSlice(base)
	}
	return base
}

func (tr *Tr) evalQuant(env *CEnv, q *CQuant) (Value, types.Type) {
	n := env
	var decls []string
	var ranges []string
	for _, b := range q.Binders {
		t := tr.resolveCType(env, b.Typ)
		tr.fresh++
		sym := smtName(fmt.Sprintf("%s?%d", b.Name, tr.fresh))
		var v Value
		if t == arrType {
			decls = append(decls, "("+sym+" (Array Int Int))")
			n = n.with(b.Name, EV{V: Ar{T: sym}, T: arrType})
			continue
		}
		switch kindOf(t) {
		case kBool:
			decls = append(decls, "("+sym+" Bool)")
			v = boolV(sym)
		case kInt:
			decls = append(decls, "("+sym+" Int)")
			v = Sc{T: sym}
			if lo, hi, ok := intRange(t); ok && b.Typ.Name != "int" {
				ranges = append(ranges, sLe(lo, sym), sLe(sym, hi))
			}
		default:
			panic(subsetErr("quantifier over " + t.String()))
		}
		if b.Typ.Name == "int" && !b.Typ.Ptr {
			t = nil // mathematical
		}
		n = n.with(b.Name, EV{V: v, T: t})
	}
	body := tr.evalBool(n, q.Body)
	rng := sAnd(ranges...)
	pat := ""
	for _, grp := range q.Trig {
		var ps []string
		for _, te := range grp {
			tv, tt := tr.evalC(n, te)
			switch y := tr.rval(n, tv, tt).(type) {
			case Sc:
				ps = append(ps, y.T)
			default:
				panic(subsetErr("trigger must be scalar"))
			}
		}
		// a usable pattern consists of applications that together mention every bound variable
		okPat := true
		for _, t := range ps {
			if !strings.HasPrefix(t, "(") || strings.HasPrefix(t, "(ite ") || strings.HasPrefix(t, "(= ") || strings.HasPrefix(t, "(+ ") || strings.HasPrefix(t, "(- ") {
				okPat = false
			}
		}
		for _, d := range decls {
			v := strings.Fields(strings.Trim(d, "()"))[0]
			found := false
			for _, t := range ps {
				if strings.Contains(t, v) {
					found = true
				}
			}
			okPat = okPat && found
		}
		if okPat {
			pat += " :pattern (" + strings.Join(ps, " ") + ")"
		}
	}
	tr.fresh++
	qid := fmt.Sprintf(" :qid Q%d_%s", tr.fresh, q.Binders[0].Name)
	if q.Forall {
		b := "(! " + sImp(rng, body) + pat + qid + ")"
		return boolV("(forall (" + strings.Join(decls, " ") + ") " + b + ")"), types.Typ[types.Bool]
	}
	b := "(! " + sAnd(rng, body) + pat + qid + ")"
	return boolV("(exists (" + strings.Join(decls, " ") + ") " + b + ")"), types.Typ[types.Bool]
}
