package main

import (
	"fmt"
	"go/ast"
	"go/constant"
	"go/token"
	"go/types"
	"sort"
	"strings"

	"golang.org/x/tools/go/ssa"
)

type subsetErr string

func (e subsetErr) Error() string { return "outside subset: " + string(e) }

// Tr translates one function under contract into facts and obligations.
type Tr struct {
	g             *Global
	fn            *ssa.Function
	key           string
	fc            *FuncContract
	sc            *Script
	fresh         int
	initVars      map[string]Value
	heapSorts     map[string]string
	typeFactDone  map[string]bool
	oldState      *State
	specMode      int
	oblCount      map[string]int
	defaultProps  []string
	caseLabel     string
	frameCount    int
	curInstrIdx   int
	curBlock      *ssa.BasicBlock
	callCount     map[string]int
	assumptions   map[string]bool
	curPos        token.Pos
	curFrame      *Frame
	axiomsDone    bool
	inlineStack   []string
	cntSyms       map[string]string
	lemmaDepth    int
	stores        map[string]storeRec
	freshRefs     map[string]bool
	symTop        map[string]string
	lastLoadTop   string
	heapKind      map[string]string
	evalDepth     int
	curClause     string
	lemmaProof    bool
	revealed      map[string]bool
	curMref       string
	reachCache    map[int]map[int]bool
	topLoopBodies map[*ssa.Function][]map[int]bool
	assumeMode    bool // evaluating a clause that is being assumed (loop invariant at the cut, callee postcondition)
	visitCount    int
	subTerms      map[string]string
	frameTops     []string
	allocParent   map[string]string       // heap version -> the version it extends by writes to freshly allocated objects only
	opaqueAtoms   map[string][]opaqueInst // opaque function symbol -> applications seen so far
	footTemplates map[string]footTemplate // opaque function symbol -> read-set template of its definition
	footUsed      map[string]bool
	refGap        map[string][2]string // fresh object (or sub-object of one) -> the address gap it lives in
	cbParam       ssa.Value            // callback parameter of an iterating function under verification (callback.go)
	cbEnv         map[string]EV        // its parameter bindings
	stableUsed    map[string]bool
	pendingOpaque *opaqueInst
}

type opaqueInst struct {
	fn      string
	args    []string
	atom    string
	sd      *SpecDef
	bool_   bool
	related bool // the lineage relations to older applications have been emitted (relateOpaque)
}

var _ = opaqueInst{}

func newTr(g *Global, fn *ssa.Function, key string, fc *FuncContract) *Tr {
	return &Tr{g: g, fn: fn, key: key, fc: fc, sc: newScript(), initVars: map[string]Value{}, heapSorts: map[string]string{},
		typeFactDone: map[string]bool{}, oblCount: map[string]int{}, assumptions: map[string]bool{}, cntSyms: map[string]string{}, callCount: map[string]int{},
		stores: map[string]storeRec{}, freshRefs: map[string]bool{}, symTop: map[string]string{}, heapKind: map[string]string{}, revealed: map[string]bool{}, subTerms: map[string]string{}, frameTops: []string{"|top@0|"},
		allocParent: map[string]string{}, opaqueAtoms: map[string][]opaqueInst{}, stableUsed: map[string]bool{}, footTemplates: map[string]footTemplate{}, footUsed: map[string]bool{}}
}

type retPoint struct {
	st  *State
	val Value // nil, single value, or Tup
	pos token.Pos
	blk int
}

type nameDef struct {
	val    ssa.Value
	isAddr bool
	block  *ssa.BasicBlock
	idx    int
}

type loopInfo struct {
	header  *ssa.BasicBlock
	body    map[*ssa.BasicBlock]bool
	ordinal int
	enum    *mapEnum
	// measure at header (for decreases)
	decrAtHeader string
}

type mapEnum struct {
	id      int
	mref    string
	mtyp    *types.Map
	dom     string // (select dom m) at Range time
	n       string
	pick    string
	rank    string
	counter string // state var name
}

type Frame struct {
	id       int
	fn       *ssa.Function
	vals     map[ssa.Value]Value
	depth    int
	top      bool
	loops    map[*ssa.BasicBlock]*loopInfo
	edgeSt   map[[2]int]*State
	rets     []retPoint
	iters    map[ssa.Value]*mapEnum
	names    map[string][]nameDef
	localVar map[*ssa.Alloc]string
	defers   []*ssa.Defer
	over     map[ssa.Value]Value
	parent   *Frame
	curBlk   *ssa.BasicBlock // position of the instruction being executed in this frame (for name lookup from inlined callees)
	curIdx   int
}

// ---------------------------------------------------------------------------------------------
// fresh symbols and type facts

func (tr *Tr) freshSym(hint string, bool_ bool) string {
	tr.fresh++
	hint = strings.Map(func(r rune) rune {
		if r == '|' || r == '\\' || r == ' ' {
			return '_'
		}
		return r
	}, hint)
	sym := smtName(fmt.Sprintf("%s!%d", hint, tr.fresh))
	if bool_ {
		tr.sc.declare(sym, "() Bool")
	} else {
		tr.sc.declare(sym, "() Int")
	}
	return sym
}

func (tr *Tr) nameBool(hint, term string) string {
	if term == "true" || term == "false" || !strings.HasPrefix(term, "(") || tr.specMode > 0 {
		return term
	}
	sym := tr.freshSym(hint, true)
	tr.sc.factLocal(sEq(sym, term))
	return sym
}

func (tr *Tr) freshValue(t types.Type, hint string, st *State) Value {
	var terms []string
	for _, lf := range tr.leavesOf(t) {
		terms = append(terms, tr.freshSym(hint+lf.suffix, lf.sort == sortBool))
	}
	v := tr.valueFromLeaves(t, &terms)
	tr.assumeTypeFacts(v, t, st)
	return v
}

// assumeTypeFacts emits the range/shape facts every well-typed Go value satisfies.
func (tr *Tr) assumeTypeFacts(v Value, t types.Type, st *State) {
	if hasBound(v) {
		return
	}
	switch kindOf(t) {
	case kBool:
		return
	case kInt:
		s := v.(Sc)
		if !strings.HasPrefix(s.T, "(") && !strings.HasPrefix(s.T, "|") {
			return // literal
		}
		key := s.T + "::" + typeKey(t)
		if tr.typeFactDone[key] {
			return
		}
		tr.typeFactDone[key] = true
		if lo, hi, ok := intRange(t); ok {
			tr.sc.fact(fmt.Sprintf("(and (<= %s %s) (<= %s %s))", lo, s.T, s.T, hi))
			return
		}
		// references: pointers, maps, funcs, strings, chans
		if isString(t) {
			tr.sc.fact(sLe("0", s.T))
			return
		}
		tr.sc.fact(sLe("0", s.T))
		if st != nil {
			// allocated before "now": stated against the current allocation counter
			tr.sc.fact(sLt(s.T, st.top))
		}
	case kSlice:
		s := v.(Sl)
		key := s.Arr + s.Off + s.Len + s.Cap
		if tr.typeFactDone[key] {
			return
		}
		tr.typeFactDone[key] = true
		// A-arith: slice windows stay below 2^31 elements (assumption, listed in the evidence)
		tr.sc.fact(fmt.Sprintf("(and (<= 0 %s) (<= 0 %s) (<= 0 %s) (<= %s %s) (<= %s 2147483648) (=> (= %s 0) (and (= %s 0) (= %s 0))))",
			s.Arr, s.Off, s.Len, s.Len, s.Cap, sAdd(s.Off, s.Cap), s.Arr, s.Cap, s.Off))
		if st != nil {
			tr.sc.fact(sLt(s.Arr, st.top))
		}
	case kIface:
		i := v.(If)
		key := i.Tag + i.Val
		if tr.typeFactDone[key] {
			return
		}
		tr.typeFactDone[key] = true
		tr.sc.fact(fmt.Sprintf("(and (<= 0 %s) (=> (= %s 0) (= %s 0)))", i.Tag, i.Tag, i.Val))
	case kStruct:
		stt := t.Underlying().(*types.Struct)
		sv := v.(St)
		for i := 0; i < stt.NumFields(); i++ {
			if tr.g.ignoredField(t, stt.Field(i)) {
				continue
			}
			tr.assumeTypeFacts(sv.F[i], stt.Field(i).Type(), st)
		}
	case kArray:
		at := t.Underlying().(*types.Array)
		sv := v.(St)
		for i := range sv.F {
			tr.assumeTypeFacts(sv.F[i], at.Elem(), st)
		}
	}
}

func (tr *Tr) asSc(v Value, t types.Type) Sc {
	switch x := v.(type) {
	case Sc:
		return x
	case LocV:
		return Sc{T: tr.asRef(v)}
	}
	panic(subsetErr(fmt.Sprintf("expected scalar, got %T (type %v)", v, t)))
}

func (tr *Tr) asSl(v Value) Sl {
	if s, ok := v.(Sl); ok {
		return s
	}
	panic(subsetErr(fmt.Sprintf("expected slice, got %T", v)))
}

func (tr *Tr) asIf(v Value) If {
	if s, ok := v.(If); ok {
		return s
	}
	panic(subsetErr(fmt.Sprintf("expected interface, got %T", v)))
}

// asRef converts a pointer-like value to a reference term.
func (tr *Tr) asRef(v Value) string {
	switch x := v.(type) {
	case Sc:
		return x.T
	case LocV:
		switch x.L.Kind {
		case LCell:
			return x.L.Ref
		case LField:
			k := kindOf(x.Typ)
			if k == kStruct || k == kArray {
				return tr.subRefOfLoc(x.L)
			}
		}
		panic(subsetErr(fmt.Sprintf("address of %v location (prefix %s) used as first-class pointer", x.L.Kind, x.L.Prefix)))
	}
	panic(subsetErr(fmt.Sprintf("expected pointer, got %T", v)))
}

// locOf converts a pointer value (pointing to type t) into a location.
func (tr *Tr) locOf(v Value, t types.Type) Loc {
	switch x := v.(type) {
	case LocV:
		return x.L
	case Sc:
		k := kindOf(t)
		if k == kStruct || k == kArray {
			return Loc{Kind: LCell, Ref: x.T}
		}
		return Loc{Kind: LCell, Prefix: cellPrefix(t), Ref: x.T}
	}
	panic(subsetErr(fmt.Sprintf("locOf: %T", v)))
}

func (tr *Tr) freshRef(st *State, hint string) string {
	r := tr.freshSym(hint, false)
	tr.freshRefs[r] = true
	tr.sc.fact(sEq(r, st.top))
	nt := tr.freshSym("top", false)
	// the allocation counter advances by at least one: an object's embedded sub-objects are addressed inside the gap
	// (see subRefOfLoc), so the step is left open
	tr.sc.fact(sLt(st.top, nt))
	if tr.refGap == nil {
		tr.refGap = map[string][2]string{}
	}
	tr.refGap[r] = [2]string{r, nt} // the object and its embedded sub-objects are addressed in [r, nt)
	st.top = nt
	return r
}

// ---------------------------------------------------------------------------------------------
// obligations

func (tr *Tr) posString(p token.Pos) string {
	if !p.IsValid() {
		p = tr.curPos
	}
	if !p.IsValid() {
		return ""
	}
	pp := tr.g.prog.Fset.Position(p)
	fn := pp.Filename
	if i := strings.Index(fn, "/repo/"); i >= 0 {
		fn = fn[i+6:]
	}
	return fmt.Sprintf("%s:%d", fn, pp.Line)
}

func (tr *Tr) oblige(st *State, kind, label string, props []string, goal string, desc string) {
	if tr.specMode > 0 {
		return
	}
	if st.guard == "false" {
		return
	}
	if label == "" {
		tr.oblCount[kind]++
		label = fmt.Sprint(tr.oblCount[kind])
	}
	if len(props) == 0 {
		props = tr.defaultProps
	}
	id := tr.key + "#" + kind + ":" + label
	if tr.caseLabel != "" {
		id += "@" + tr.caseLabel
	}
	// de-duplicate ids (same labelled clause checked at several return points / call sites)
	base := id
	for n := 2; tr.hasObl(id); n++ {
		id = fmt.Sprintf("%s~%d", base, n)
	}
	ob := &Obligation{ID: id, Kind: kind, Label: label, Props: props, Guard: st.guard, Goal: goal,
		NFacts: len(tr.sc.facts), NDecls: len(tr.sc.decls), Pos: tr.posString(token.NoPos), Desc: desc, Func: tr.key, Case: tr.caseLabel,
		Block: tr.sc.curBlock, Reach: tr.reachOf(tr.sc.curBlock)}
	if goal == "true" {
		ob.Status = "unsat"
		ob.Solver = "trivial"
	} else {
		// heap versions current at the obligation (for the lean solver pass)
		ob.Cur = make(map[string]bool, len(st.vars))
		for _, v := range st.vars {
			if sc, ok := v.(Sc); ok && strings.Contains(sc.T, "@") {
				ob.Cur[sc.T] = true
			}
		}
	}
	tr.sc.obls = append(tr.sc.obls, ob)
	// assert-then-assume
	tr.sc.factLocal(sImp(st.guard, goal))
}

func (tr *Tr) hasObl(id string) bool {
	for _, o := range tr.sc.obls {
		if o.ID == id {
			return true
		}
	}
	return false
}

func (tr *Tr) assume(st *State, f string) {
	if st.guard == "true" {
		tr.sc.fact(f)
		return
	}
	tr.sc.factLocal(sImp(st.guard, f))
}

// ---------------------------------------------------------------------------------------------
// merging

func (tr *Tr) mergeLeaf(hint string, isBool bool, sort string, terms []string, guards []string) string {
	same := true
	for _, t := range terms[1:] {
		if t != terms[0] {
			same = false
			break
		}
	}
	if same {
		return terms[0]
	}
	if tr.specMode > 0 {
		// pure terms only: contract expressions may contain bound variables, so nothing is named
		acc := terms[len(terms)-1]
		for i := len(terms) - 2; i >= 0; i-- {
			acc = sIte(guards[i], terms[i], acc)
		}
		return acc
	}
	var sym string
	if sort != "" {
		tr.fresh++
		sym = smtName(fmt.Sprintf("%s@%d", hint, tr.fresh))
		tr.sc.declare(sym, "() "+sort)
	} else {
		sym = tr.freshSym(hint, isBool)
	}
	for i, t := range terms {
		tr.sc.factLocal(sImp(guards[i], sEq(sym, t)))
	}
	return sym
}

func (tr *Tr) mergeValues(hint string, vals []Value, guards []string) Value {
	if len(vals) == 1 {
		return vals[0]
	}
	switch v0 := vals[0].(type) {
	case Sc:
		ts := make([]string, len(vals))
		for i, v := range vals {
			s, ok := v.(Sc)
			if !ok {
				s = Sc{T: tr.asRef(v)}
			}
			ts[i] = s.T
		}
		return Sc{T: tr.mergeLeaf(hint, v0.Bool, "", ts, guards), Bool: v0.Bool}
	case Sl:
		var a, o, l, c []string
		for _, v := range vals {
			s := v.(Sl)
			a, o, l, c = append(a, s.Arr), append(o, s.Off), append(l, s.Len), append(c, s.Cap)
		}
		return Sl{tr.mergeLeaf(hint+"#arr", false, "", a, guards), tr.mergeLeaf(hint+"#off", false, "", o, guards),
			tr.mergeLeaf(hint+"#len", false, "", l, guards), tr.mergeLeaf(hint+"#cap", false, "", c, guards)}
	case If:
		var a, b []string
		for _, v := range vals {
			s := v.(If)
			a, b = append(a, s.Tag), append(b, s.Val)
		}
		return If{tr.mergeLeaf(hint+"#tag", false, "", a, guards), tr.mergeLeaf(hint+"#val", false, "", b, guards)}
	case St:
		out := St{F: make([]Value, len(v0.F))}
		for i := range v0.F {
			sub := make([]Value, len(vals))
			for j, v := range vals {
				sub[j] = v.(St).F[i]
			}
			out.F[i] = tr.mergeValues(fmt.Sprintf("%s.%d", hint, i), sub, guards)
		}
		return out
	case Tup:
		out := Tup{E: make([]Value, len(v0.E))}
		for i := range v0.E {
			sub := make([]Value, len(vals))
			for j, v := range vals {
				sub[j] = v.(Tup).E[i]
			}
			out.E[i] = tr.mergeValues(fmt.Sprintf("%s.%d", hint, i), sub, guards)
		}
		return out
	case LocV:
		// identical locations only
		for _, v := range vals[1:] {
			if l, ok := v.(LocV); !ok || l.L != v0.L {
				// fall back to references
				ts := make([]string, len(vals))
				for i, v := range vals {
					ts[i] = tr.asRef(v)
				}
				return Sc{T: tr.mergeLeaf(hint, false, "", ts, guards)}
			}
		}
		return v0
	case nil:
		return nil
	case *FnV:
		for _, v := range vals[1:] {
			if f, ok := v.(*FnV); !ok || f.Fn != v0.Fn {
				panic(subsetErr("merge of different function values"))
			}
		}
		return v0
	}
	panic(subsetErr(fmt.Sprintf("mergeValues: %T", vals[0])))
}

func (tr *Tr) mergeStates(sts []*State) *State {
	if len(sts) == 1 {
		return sts[0].clone()
	}
	guards := make([]string, len(sts))
	for i, s := range sts {
		guards[i] = s.guard
	}
	out := &State{vars: map[string]Value{}}
	out.guard = tr.nameBool("g", sOr(guards...))
	names := map[string]bool{}
	for _, s := range sts {
		for k := range s.vars {
			names[k] = true
		}
	}
	for _, name := range sortedKeys(names) {
		vals := make([]Value, len(sts))
		missing := false
		for i, s := range sts {
			v, ok := s.vars[name]
			if !ok {
				v, ok = tr.initVars[name]
				if !ok {
					missing = true
					break
				}
			}
			vals[i] = v
		}
		if missing {
			continue // a local cell not defined on all paths: dead afterwards
		}
		if sort, isHeap := tr.heapSorts[name]; isHeap {
			ts := make([]string, len(vals))
			for i, v := range vals {
				ts[i] = v.(Sc).T
			}
			merged := tr.mergeLeaf(name, false, sort, ts, guards)
			out.vars[name] = Sc{T: merged}
			if anc := tr.commonAllocAncestor(ts); anc != "" && anc != merged {
				// on every incoming path the merged version extends anc by writes to fresh objects only
				tr.allocParent[merged] = anc
			}
		} else {
			out.vars[name] = tr.mergeValues(name, vals, guards)
		}
	}
	tops := make([]string, len(sts))
	for i, s := range sts {
		tops[i] = s.top
	}
	out.top = tr.mergeLeaf("top", false, "", tops, guards)
	tr.mergeOpaqueAtoms(sts, out, guards)
	for name := range tr.heapSorts {
		if v, ok := out.vars[name]; ok {
			if _, known := tr.symTop[v.(Sc).T]; !known {
				tr.symTop[v.(Sc).T] = out.top
			}
		}
	}
	return out
}

// ---------------------------------------------------------------------------------------------
// function values

type FnV struct {
	Fn   *ssa.Function
	Bind []Value
}

func (*FnV) isValue() {}

// ---------------------------------------------------------------------------------------------
// frames

func (tr *Tr) newFrame(fn *ssa.Function, depth int, top bool) *Frame {
	tr.frameCount++
	fr := &Frame{id: tr.frameCount, fn: fn, vals: map[ssa.Value]Value{}, depth: depth, top: top,
		edgeSt: map[[2]int]*State{}, iters: map[ssa.Value]*mapEnum{}, localVar: map[*ssa.Alloc]string{}}
	fr.analyzeLoops()
	fr.collectNames()
	return fr
}

func (fr *Frame) analyzeLoops() {
	fr.analyzeLoopBodies()
	fr.orderLoops()
}

func (fr *Frame) analyzeLoopBodies() {
	fr.loops = map[*ssa.BasicBlock]*loopInfo{}
	fn := fr.fn
	for _, b := range fn.Blocks {
		for _, s := range b.Succs {
			if s.Dominates(b) {
				li := fr.loops[s]
				if li == nil {
					li = &loopInfo{header: s, body: map[*ssa.BasicBlock]bool{s: true}}
					fr.loops[s] = li
				}
				// natural loop of back edge b->s
				var stack []*ssa.BasicBlock
				if !li.body[b] {
					li.body[b] = true
					stack = append(stack, b)
				}
				for len(stack) > 0 {
					x := stack[len(stack)-1]
					stack = stack[:len(stack)-1]
					for _, p := range x.Preds {
						if !li.body[p] {
							li.body[p] = true
							stack = append(stack, p)
						}
					}
				}
			}
		}
	}
}

func (fr *Frame) orderLoops() {
	var hs []*ssa.BasicBlock
	for h := range fr.loops {
		hs = append(hs, h)
	}
	sort.Slice(hs, func(i, j int) bool { return loopPos(fr.loops[hs[i]]) < loopPos(fr.loops[hs[j]]) })
	for i, h := range hs {
		fr.loops[h].ordinal = i + 1
	}
}

// loopPos orders loops by the smallest source position of any instruction in the loop.
func loopPos(li *loopInfo) token.Pos {
	best := token.Pos(0)
	for b := range li.body {
		for _, in := range b.Instrs {
			if _, ok := in.(*ssa.DebugRef); ok {
				continue
			}
			if p := in.Pos(); p.IsValid() && (best == 0 || p < best) {
				best = p
			}
		}
	}
	if best == 0 {
		return token.Pos(li.header.Index)
	}
	return best
}

func (fr *Frame) collectNames() {
	fr.names = map[string][]nameDef{}
	for _, p := range fr.fn.Params {
		fr.names[p.Name()] = append(fr.names[p.Name()], nameDef{val: p, block: nil, idx: -1})
	}
	for _, p := range fr.fn.FreeVars {
		fr.names[p.Name()] = append(fr.names[p.Name()], nameDef{val: p, isAddr: true, block: nil, idx: -1})
	}
	for _, b := range fr.fn.Blocks {
		for i, in := range b.Instrs {
			switch x := in.(type) {
			case *ssa.Phi:
				if x.Comment != "" {
					fr.names[x.Comment] = append(fr.names[x.Comment], nameDef{val: x, block: b, idx: i})
				}
			case *ssa.DebugRef:
				if id, ok := x.Expr.(*ast.Ident); ok {
					if v, isVar := x.Object().(*types.Var); isVar && v.IsField() {
						continue // the selector identifier of x.f: a field, not a variable of that name
					}
					fr.names[id.Name] = append(fr.names[id.Name], nameDef{val: x.X, isAddr: x.IsAddr, block: b, idx: i})
				}
			case *ssa.Alloc:
				if x.Comment != "" {
					fr.names[x.Comment] = append(fr.names[x.Comment], nameDef{val: x, isAddr: true, block: b, idx: i})
				}
			}
		}
	}
}

// lookupName resolves a source-level variable name at the entry of block at.
func (fr *Frame) lookupName(name string, at *ssa.BasicBlock) (nameDef, bool) {
	return fr.lookupNameAt(name, at, -1)
}

// lookupNameAt resolves a source-level variable name just before instruction index atIdx of block at
// (atIdx < 0: at block entry, where only the block's phis are visible).
func (fr *Frame) lookupNameAt(name string, at *ssa.BasicBlock, atIdx int) (nameDef, bool) {
	defs := fr.names[name]
	var best *nameDef
	for i := range defs {
		d := &defs[i]
		if d.block != nil {
			if !d.block.Dominates(at) {
				continue
			}
			if d.block == at {
				if _, isPhi := d.val.(*ssa.Phi); !isPhi && d.idx >= atIdx {
					continue
				}
			}
		}
		if best == nil || later(d, best) {
			best = d
		}
	}
	if best == nil {
		return nameDef{}, false
	}
	return *best, true
}

func later(a, b *nameDef) bool {
	if b.block == nil {
		return a.block != nil || a.idx > b.idx
	}
	if a.block == nil {
		return false
	}
	if a.block == b.block {
		return a.idx > b.idx
	}
	// both dominate the same block, so one dominates the other
	return b.block.Dominates(a.block)
}

// ---------------------------------------------------------------------------------------------
// value lookup

func (tr *Tr) val(fr *Frame, v ssa.Value) Value {
	if fr.over != nil {
		if x, ok := fr.over[v]; ok {
			return x
		}
	}
	if x, ok := fr.vals[v]; ok {
		return x
	}
	switch c := v.(type) {
	case *ssa.Const:
		return tr.constValue(c)
	case *ssa.Global:
		return LocV{L: Loc{Kind: LVar, Prefix: "G$" + c.Pkg.Pkg.Name() + "." + c.Name()}, Typ: c.Type().(*types.Pointer).Elem()}
	case *ssa.Function:
		return &FnV{Fn: c}
	case *ssa.Builtin:
		panic(subsetErr("builtin used as value: " + c.Name()))
	}
	panic(subsetErr(fmt.Sprintf("value %s (%T) not defined in frame of %s", v.Name(), v, fr.fn.Name())))
}

func (tr *Tr) constValue(c *ssa.Const) Value {
	t := c.Type()
	if c.Value == nil {
		// zero value / nil
		return tr.zeroValue(t)
	}
	switch c.Value.Kind() {
	case constant.Bool:
		if constant.BoolVal(c.Value) {
			return Sc{T: "true", Bool: true}
		}
		return Sc{T: "false", Bool: true}
	case constant.Int:
		return Sc{T: smtInt(c.Value.ExactString())}
	case constant.String:
		return Sc{T: tr.g.stringConst(tr, constant.StringVal(c.Value))}
	case constant.Float:
		panic(subsetErr("float constant"))
	}
	panic(subsetErr("constant kind " + c.Value.Kind().String()))
}

// ---------------------------------------------------------------------------------------------
// execution

func (tr *Tr) execBody(fr *Frame, st *State) []retPoint {
	fn := fr.fn
	if len(fn.Blocks) == 0 {
		panic(subsetErr("function without body: " + fn.String()))
	}
	prevFrame := tr.curFrame
	tr.curFrame = fr
	defer func() { tr.curFrame = prevFrame }()
	order := rpo(fn)
	entry := fn.Blocks[0]
	for _, b := range order {
		if b == fn.Recover {
			continue
		}
		var cur *State
		li := fr.loops[b]
		if fr.top {
			tr.sc.curBlock = b.Index // merge facts of this block belong to it
		}
		if b == entry {
			cur = st
		} else {
			var ins []*State
			var inIdx []int
			for i, p := range b.Preds {
				if li != nil && li.body[p] {
					continue // back edge
				}
				if s := fr.edgeSt[[2]int{p.Index, b.Index}]; s != nil && s.guard != "false" {
					ins = append(ins, s)
					inIdx = append(inIdx, i)
				}
			}
			if len(ins) == 0 {
				continue // unreachable
			}
			guards := make([]string, len(ins))
			for i, s := range ins {
				guards[i] = s.guard
			}
			// phi values from entry edges (evaluated before merging)
			phiVals := map[*ssa.Phi]Value{}
			for _, in := range b.Instrs {
				phi, ok := in.(*ssa.Phi)
				if !ok {
					break
				}
				vals := make([]Value, len(ins))
				for j, pi := range inIdx {
					vals[j] = tr.val(fr, phi.Edges[pi])
				}
				phiVals[phi] = tr.mergeValues(phiName(phi), vals, guards)
			}
			cur = tr.mergeStates(ins)
			if li == nil {
				for phi, v := range phiVals {
					fr.vals[phi] = v
				}
			} else {
				cur = tr.cutLoopEntry(fr, li, cur, phiVals)
			}
		}
		tr.execBlock(fr, b, cur, li)
	}
	return fr.rets
}

func phiName(p *ssa.Phi) string {
	if p.Comment != "" {
		return p.Comment
	}
	return p.Name()
}

func rpo(fn *ssa.Function) []*ssa.BasicBlock {
	seen := map[*ssa.BasicBlock]bool{}
	var post []*ssa.BasicBlock
	var dfs func(b *ssa.BasicBlock)
	dfs = func(b *ssa.BasicBlock) {
		seen[b] = true
		for _, s := range b.Succs {
			if !seen[s] {
				dfs(s)
			}
		}
		post = append(post, b)
	}
	dfs(fn.Blocks[0])
	for i, j := 0, len(post)-1; i < j; i, j = i+1, j-1 {
		post[i], post[j] = post[j], post[i]
	}
	return post
}

func (tr *Tr) loopContract(fr *Frame, li *loopInfo) *LoopContract {
	fc := tr.g.contracts.Funcs[tr.g.funcKey(fr.fn)]
	if fc == nil {
		return nil
	}
	return fc.Loops[li.ordinal]
}

// cutLoopEntry checks the invariant on entry, havocs the loop-modified state and assumes the invariant.
func (tr *Tr) cutLoopEntry(fr *Frame, li *loopInfo, st *State, entryPhis map[*ssa.Phi]Value) *State {
	lc := tr.loopContract(fr, li)
	if lc == nil {
		lc = &LoopContract{}
	}
	fkey := tr.g.funcKey(fr.fn)
	// find enumeration of a range-over-map loop
	for _, in := range li.header.Instrs {
		if nx, ok := in.(*ssa.Next); ok {
			li.enum = fr.iters[nx.Iter]
		}
	}
	tr.curPos = firstPos(li.header)
	// 1. invariant holds on entry
	over := map[ssa.Value]Value{}
	for p, v := range entryPhis {
		over[p] = v
	}
	for _, inv := range lc.Invariants {
		env := tr.frameEnv(fr, st, li.header, over, li)
		goal := tr.evalBool(env, inv.Expr)
		tr.oblige(st, "inv-entry", tr.loopLabel(fkey, li, inv), inv.Props, goal, "loop invariant holds on entry: "+inv.Src)
	}
	// 2. havoc
	mods := tr.loopMods(fr, li)
	hst := st.clone()
	for _, name := range sortedKeys(mods) {
		mi := mods[name]
		if mi.sort != "" {
			tr.fresh++
			sym := smtName(fmt.Sprintf("%s@%d", name, tr.fresh))
			oldT := tr.heapVar(hst, name, mi.sort)
			tr.sc.declare(sym, "() "+mi.sort)
			hst.vars[name] = Sc{T: sym}
			if !mi.mutates {
				// the loop body only writes objects it allocates itself: everything that existed when the loop was entered
				// keeps its contents in this heap, whatever the iteration
				tr.noteFrameTop(st.top)
				tr.sc.factLocal(fmt.Sprintf("(forall ((r Int)) (! (=> (< r %s) (= (select %s r) (select %s r))) :pattern ((select %s r))))", st.top, sym, oldT, sym))
				tr.allocParent[sym] = oldT
			}
		} else if cur, ok := hst.vars[name]; ok {
			hst.vars[name] = tr.havocLike(name, cur, hst)
		}
	}
	nt := tr.freshSym("top", false)
	tr.sc.factLocal(sLe(st.top, nt))
	hst.top = nt
	for _, name := range sortedKeys(mods) {
		mi := mods[name]
		if mi.sort != "" {
			tr.symTop[hst.vars[name].(Sc).T] = nt
			tr.heapVersionAxiom(name, hst.vars[name].(Sc).T, mi.sort, nt, true)
		}
	}
	// deterministic order (the generated script is the key of the answer cache)
	var phis []*ssa.Phi
	for p := range entryPhis {
		phis = append(phis, p)
	}
	sort.Slice(phis, func(i, j int) bool { return phis[i].Name() < phis[j].Name() })
	for _, p := range phis {
		fr.vals[p] = tr.freshValue(p.Type(), phiName(p), hst)
	}
	if li.enum != nil {
		it := hst.vars[li.enum.counter].(Sc).T
		tr.assume(hst, fmt.Sprintf("(and (<= 0 %s) (<= %s %s))", it, it, li.enum.n))
	}
	// 3. assume invariant
	for _, inv := range lc.Invariants {
		env := tr.frameEnv(fr, hst, li.header, nil, li)
		tr.specMode++
		tr.assumeMode = true
		f := tr.evalBool(env, inv.Expr)
		tr.assumeMode = false
		tr.specMode--
		tr.assume(hst, f)
	}
	if lc.Decreases != nil {
		env := tr.frameEnv(fr, hst, li.header, nil, li)
		tr.specMode++
		v, _ := tr.evalC(env, lc.Decreases.Expr)
		tr.specMode--
		li.decrAtHeader = v.(Sc).T
	}
	return hst
}

func (tr *Tr) loopLabel(fkey string, li *loopInfo, inv *Clause) string {
	l := inv.Label
	if l == "" {
		l = fmt.Sprintf("L%d", inv.Line)
	}
	pre := ""
	if fkey != tr.key {
		pre = fkey + "."
	}
	return fmt.Sprintf("%sloop%d.%s", pre, li.ordinal, l)
}

func (tr *Tr) havocLike(hint string, v Value, st *State) Value {
	switch x := v.(type) {
	case Sc:
		return Sc{T: tr.freshSym(hint, x.Bool), Bool: x.Bool}
	case Sl:
		n := Sl{tr.freshSym(hint+"#arr", false), tr.freshSym(hint+"#off", false), tr.freshSym(hint+"#len", false), tr.freshSym(hint+"#cap", false)}
		tr.assumeTypeFacts(n, types.NewSlice(types.Typ[types.Int]), st)
		return n
	case If:
		return If{tr.freshSym(hint+"#tag", false), tr.freshSym(hint+"#val", false)}
	case St:
		out := St{F: make([]Value, len(x.F))}
		for i := range x.F {
			out.F[i] = tr.havocLike(fmt.Sprintf("%s.%d", hint, i), x.F[i], st)
		}
		return out
	}
	panic(subsetErr(fmt.Sprintf("havoc of %T", v)))
}

func firstPos(b *ssa.BasicBlock) token.Pos {
	for _, in := range b.Instrs {
		if p := in.Pos(); p.IsValid() {
			return p
		}
	}
	return token.NoPos
}

// backEdge checks invariant preservation on a back edge.
func (tr *Tr) backEdge(fr *Frame, li *loopInfo, from *ssa.BasicBlock, st *State) {
	lc := tr.loopContract(fr, li)
	if lc == nil {
		lc = &LoopContract{}
	}
	fkey := tr.g.funcKey(fr.fn)
	// which pred index
	pi := -1
	for i, p := range li.header.Preds {
		if p == from {
			pi = i
		}
	}
	over := map[ssa.Value]Value{}
	for _, in := range li.header.Instrs {
		phi, ok := in.(*ssa.Phi)
		if !ok {
			break
		}
		over[phi] = tr.val(fr, phi.Edges[pi])
	}
	tr.curPos = firstPos(li.header)
	for _, inv := range lc.Invariants {
		env := tr.frameEnv(fr, st, li.header, over, li)
		goal := tr.evalBool(env, inv.Expr)
		tr.oblige(st, "inv-pres", tr.loopLabel(fkey, li, inv), inv.Props, goal, "loop invariant preserved: "+inv.Src)
	}
	if lc.Decreases != nil {
		env := tr.frameEnv(fr, st, li.header, over, li)
		tr.specMode++
		v, _ := tr.evalC(env, lc.Decreases.Expr)
		tr.specMode--
		goal := fmt.Sprintf("(and (<= 0 %s) (< %s %s))", li.decrAtHeader, v.(Sc).T, li.decrAtHeader)
		tr.oblige(st, "decr", fmt.Sprintf("loop%d", li.ordinal), lc.Decreases.Props, goal, "loop variant decreases and is bounded below: "+lc.Decreases.Src)
	}
}

func (tr *Tr) execBlock(fr *Frame, b *ssa.BasicBlock, st *State, li *loopInfo) {
	for idx, in := range b.Instrs {
		if st.guard == "false" {
			return
		}
		if fr.top {
			tr.curInstrIdx, tr.curBlock = idx, b
			tr.sc.curBlock = b.Index
		}
		fr.curBlk, fr.curIdx = b, idx
		if p := in.Pos(); p.IsValid() {
			tr.curPos = p
		}
		switch x := in.(type) {
		case *ssa.Phi, *ssa.DebugRef:
			continue
		case *ssa.If:
			c := tr.asSc(tr.val(fr, x.Cond), nil).T
			tr.flow(fr, b, b.Succs[0], st, c)
			tr.flow(fr, b, b.Succs[1], st, sNot(c))
			return
		case *ssa.Jump:
			tr.flow(fr, b, b.Succs[0], st, "true")
			return
		case *ssa.Return:
			var v Value
			switch len(x.Results) {
			case 0:
			case 1:
				v = tr.val(fr, x.Results[0])
			default:
				t := Tup{}
				for _, r := range x.Results {
					t.E = append(t.E, tr.val(fr, r))
				}
				v = t
			}
			fr.rets = append(fr.rets, retPoint{st: st, val: v, pos: x.Pos(), blk: b.Index})
			return
		case *ssa.Panic:
			tr.oblige(st, "panic", "", nil, "false", "explicit panic is unreachable")
			st.guard = "false"
			return
		default:
			tr.execInstr(fr, in, st)
		}
	}
}

// flow records the state on the edge from->to under the extra condition c.
func (tr *Tr) flow(fr *Frame, from, to *ssa.BasicBlock, st *State, c string) {
	es := st.clone()
	es.guard = tr.nameBool("g", sAnd(st.guard, c))
	if es.guard == "false" {
		return
	}
	if li := fr.loops[to]; li != nil && li.body[from] {
		tr.backEdge(fr, li, from, es)
		return
	}
	key := [2]int{from.Index, to.Index}
	if fr.edgeSt[key] != nil {
		// two edges between the same blocks: merge
		fr.edgeSt[key] = tr.mergeStates([]*State{fr.edgeSt[key], es})
		return
	}
	fr.edgeSt[key] = es
}

func (tr *Tr) runDefers(fr *Frame, st *State) {
	for i := len(fr.defers) - 1; i >= 0; i-- {
		d := fr.defers[i]
		tr.execCall(fr, &d.Call, nil, st)
	}
}

// hasBound reports whether a value mentions a quantifier-bound variable (such terms must not leak into global facts).
func hasBound(v Value) bool {
	switch x := v.(type) {
	case Sc:
		return strings.Contains(x.T, "?")
	case Sl:
		return strings.Contains(x.Arr+x.Off+x.Len+x.Cap, "?")
	case If:
		return strings.Contains(x.Tag+x.Val, "?")
	case St:
		for _, f := range x.F {
			if hasBound(f) {
				return true
			}
		}
	}
	return false
}

// commonAllocAncestor returns a heap version that every given version equals or extends by allocation-only writes.
func (tr *Tr) commonAllocAncestor(ts []string) string {
	chain := func(t string) []string {
		c := []string{t}
		for hops := 0; hops < 500; hops++ {
			p, ok := tr.allocParent[t]
			if !ok {
				break
			}
			c = append(c, p)
			t = p
		}
		return c
	}
	first := chain(ts[0])
	for _, cand := range first {
		ok := true
		for _, t := range ts[1:] {
			found := false
			for _, x := range chain(t) {
				if x == cand {
					found = true
					break
				}
			}
			if !found {
				ok = false
				break
			}
		}
		if ok {
			return cand
		}
	}
	return ""
}

// mergeOpaqueAtoms: for every application of an opaque spec that speaks about the heap of an incoming state (its
// current heap versions, or versions the current ones extend by allocation only), introduce the corresponding
// application over the merged heap versions. Under that state's guard the two are equal (plain congruence, spelled out
// so that the solver does not have to derive it from many array equalities) or, when allocation-ancestors / older
// allocation counters are involved, related by the stability lemma of the spec.
func (tr *Tr) mergeOpaqueAtoms(sts []*State, out *State, guards []string) {
	if tr.specMode > 0 {
		return
	}
	// the applications known before the merge: those created by the merge itself (below) are known under one incoming
	// guard only and must not stand in for older ones on the other incoming paths
	snapshot := map[string][]opaqueInst{}
	for fn, insts := range tr.opaqueAtoms {
		snapshot[fn] = append([]opaqueInst(nil), insts...)
	}
	for i, st := range sts {
		exact := map[string]string{}  // incoming current version -> merged version
		ancest := map[string]string{} // allocation-ancestor of an incoming version -> merged version
		ancDist := map[string]int{}   // ... and its distance from the incoming version
		for name := range tr.heapSorts {
			v, ok := st.vars[name]
			if !ok {
				v, ok = tr.initVars[name]
			}
			if !ok {
				continue
			}
			mv, ok2 := out.vars[name]
			if !ok2 {
				mv = v // untouched on every path: the merged state keeps this version
			}
			cur := v.(Sc).T
			exact[cur] = mv.(Sc).T
			for hops := 0; hops < 500; hops++ {
				p, has := tr.allocParent[cur]
				if !has {
					break
				}
				if _, dup := ancest[p]; !dup {
					ancest[p] = mv.(Sc).T
					ancDist[p] = hops + 1
				}
				cur = p
			}
		}
		for _, fn := range sortedKeys(snapshot) {
			insts := snapshot[fn]
			n := len(insts)
			// applications that differ only in how old their heap versions are: the youngest one carries everything the
			// older ones do (they are already related to it), so only the youngest is carried over the merge
			best := map[string]int{}
			distOf := func(inst opaqueInst) (string, int, bool) {
				d := 0
				var key []string
				for _, a := range inst.args {
					if _, has := exact[a]; has {
						key = append(key, "#")
						continue
					}
					if _, has := ancest[a]; has {
						d += ancDist[a]
						key = append(key, "#")
						continue
					}
					if strings.HasPrefix(a, "|top") {
						key = append(key, "#")
						if a != st.top {
							d++
						}
						continue
					}
					if strings.HasPrefix(tr.sc.sigs[a], "() (Array") {
						return "", 0, false
					}
					// a scalar argument computed from a heap version that is no longer current in this incoming state: the
					// application is stale (later evaluations read the current version and produce a different term)
					if strings.Contains(a, "@") {
						for _, m := range quotedSymRe.FindAllString(a, -1) {
							if strings.Contains(m, "@") && strings.HasPrefix(tr.sc.sigs[m], "() (Array") {
								if _, cur := exact[m]; !cur {
									return "", 0, false
								}
							}
						}
					}
					key = append(key, a)
				}
				return strings.Join(key, " "), d, true
			}
			bestIdx := map[string]int{}
			for k := 0; k < n; k++ {
				if strings.Contains(insts[k].atom, " _") {
					continue
				}
				if key, d, ok := distOf(insts[k]); ok {
					if b, has := best[key]; !has || d < b {
						best[key] = d
						bestIdx[key] = k
					}
				}
			}
			for k := 0; k < n; k++ {
				inst := insts[k]
				if strings.Contains(inst.atom, " _") {
					continue // registered only for the quantified stability relation
				}
				// among applications that differ only in how old their heap versions are, the ones closest to this incoming
				// state are carried over (the older ones are related to them already)
				if key, d, ok := distOf(inst); !ok || d > best[key] {
					continue
				}
				changed, ok, isExact := false, true, true
				var conds []string
				nargs := make([]string, len(inst.args))
				for j, a := range inst.args {
					nargs[j] = a
					if m, has := exact[a]; has {
						if m != a {
							nargs[j] = m
							changed = true
						}
						continue
					}
					if m, has := ancest[a]; has {
						nargs[j] = m
						changed = true
						isExact = false
						continue
					}
					if strings.HasPrefix(a, "|top") {
						if a != out.top {
							nargs[j] = out.top
							changed = true
							if a != st.top {
								isExact = false
							}
							conds = append(conds, sLe(a, out.top))
						}
						continue
					}
					if strings.HasPrefix(tr.sc.sigs[a], "() (Array") {
						ok = false // speaks about an unrelated heap version
						break
					}
				}
				if !changed || !ok {
					continue
				}
				atom := "(" + fn + " " + strings.Join(nargs, " ") + ")"
				if atom == inst.atom {
					continue
				}
				exists := false
				for _, o := range tr.opaqueAtoms[fn] {
					if o.atom == atom {
						exists = true
						break
					}
				}
				if isExact || !inst.bool_ {
					tr.sc.fact(sImp(sAnd(append(conds, guards[i])...), sEq(atom, inst.atom)))
				} else {
					tr.sc.fact(sImp(sAnd(append(conds, guards[i], inst.atom)...), atom))
					tr.stableUsed[inst.sd.Name] = true
				}
				if !exists {
					tr.opaqueAtoms[fn] = append(tr.opaqueAtoms[fn], opaqueInst{fn: fn, args: nargs, atom: atom, sd: inst.sd, bool_: inst.bool_})
				}
			}
		}
	}
}

// reachOf returns the set of top-level blocks that can reach block b (including b); nil if b is unknown.
func (tr *Tr) reachOf(b int) map[int]bool {
	if b < 0 || tr.fn == nil || b >= len(tr.fn.Blocks) {
		return nil
	}
	if tr.reachCache == nil {
		tr.reachCache = map[int]map[int]bool{}
	}
	if r, ok := tr.reachCache[b]; ok {
		return r
	}
	r := map[int]bool{b: true}
	stack := []*ssa.BasicBlock{tr.fn.Blocks[b]}
	for len(stack) > 0 {
		x := stack[len(stack)-1]
		stack = stack[:len(stack)-1]
		for _, p := range x.Preds {
			if !r[p.Index] {
				r[p.Index] = true
				stack = append(stack, p)
			}
		}
	}
	// Facts emitted while translating the body of a loop describe one arbitrary iteration, which ends in the
	// invariant-preservation obligations and is then abandoned; the code after the loop continues from the havocked state
	// at the loop header. For an obligation outside a loop body the facts of that body (header excluded) are therefore
	// irrelevant and left out (fewer assumptions: sound).
	if tr.topLoopBodies == nil {
		tr.topLoopBodies = map[*ssa.Function][]map[int]bool{}
	}
	bodies, ok := tr.topLoopBodies[tr.fn]
	if !ok {
		tmp := &Frame{fn: tr.fn}
		tmp.analyzeLoopBodies()
		for h, li := range tmp.loops {
			// only loops that are left through their header: a break/return edge out of the body carries body facts along
			headerOnly := true
			for bb := range li.body {
				if bb == h {
					continue
				}
				for _, sx := range bb.Succs {
					if !li.body[sx] {
						headerOnly = false
					}
				}
			}
			if !headerOnly {
				continue
			}
			m := map[int]bool{}
			for bb := range li.body {
				if bb != h {
					m[bb.Index] = true
				}
			}
			bodies = append(bodies, m)
		}
		tr.topLoopBodies[tr.fn] = bodies
	}
	for _, m := range bodies {
		if m[b] {
			continue
		}
		for idx := range m {
			delete(r, idx)
		}
	}
	tr.reachCache[b] = r
	return r
}
