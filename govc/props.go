package main

// propTable: the properties claimed, their level and an honest statement of what the obligations decide.
// Filled in as checks are built; a property absent here is listed under not_applicable in MANIFEST.json.
var propTable = map[string]propInfo{
	"C16": {
		Level: "proof",
		Explanation: "Contract-based deductive verification of the real Go code: every function that implements a clause of the property " +
			"(limitSize, Inflights.{Add,FreeLE,grow,reset,Full}, ...) carries requires/ensures/loop-invariant contracts in a comment-only file; " +
			"govc rebuilds go/ssa from /repo's working tree, generates weakest-precondition style verification conditions " +
			"(postconditions, loop-invariant entry/preservation, variants, callee preconditions at call sites, nil/bounds/panic freedom) " +
			"with exact 64-bit wrap-around arithmetic, and discharges each one with z3/cvc5 for all inputs, with no bound.",
	},
}
