package main

// propTable: the properties claimed, their level and an honest statement of what the obligations decide.
// A property absent here is listed under not_applicable in MANIFEST.json.
//
// Levels: "proof" where every clause of the property that can be phrased over one call or one data structure is a
// discharged obligation; "other" where the property is a statement about all nodes / whole histories and the check
// proves the node-local half only (the per-call obligations every global argument for the property rests on), with the
// cross-node step left to the stated environment assumptions.
const commonMethod = "Contract-based deductive verification of the real Go code: requires/ensures/loop-invariant/frame contracts in comment-only files " +
	"(build tag verif), verification conditions generated from go/ssa of /repo's working tree on every run (exact 64-bit wrap-around arithmetic, " +
	"nil/bounds/panic freedom as obligations, callers checked against callee contracts), discharged for all inputs by z3/cvc5. "

var propTable = map[string]propInfo{
	"C01": {
		Level: "other",
		Explanation: commonMethod + "Node-local half of state-machine safety: no operation rewrites or truncates the committed prefix of the local log " +
			"(#committed-prefix-stable on raftLog.maybeAppend, raft.handleAppendEntries, raft.appendEntry, raft.becomeLeader; unstable.truncateAndAppend never touches " +
			"entries below its 'after' point), the commit index never passes the end of the log (wf_raftLog) and only moves forward (hs_monotone on every function from " +
			"Step down). The cross-node step (two nodes' committed prefixes agree) is not a per-call statement and rests on C03/C04/C06 plus the environment assumption " +
			"E-leader-complete; it is not decided here.",
	},
	"C02": {
		Level: "other",
		Explanation: commonMethod + "Node-local half of election safety: a node turns leader only through becomeLeader, whose precondition #won is that the recorded votes " +
			"are a Won tally for its (joint) configuration (proved at the single call site in stepCandidate); a vote is recorded first-wins (poll/RecordVote); " +
			"Vote changes within a term only from None (hs_monotone, proved for every function from Step down); a vote is granted only to an up-to-date candidate " +
			"(Step#vote-needs-up-to-date-log); campaigning bumps the term by exactly one and votes for self. That two nodes cannot both collect a quorum in one term is " +
			"the global step (quorum intersection, C12) and is not decided here.",
	},
	"C03": {
		Level: "other",
		Explanation: commonMethod + "Within one log: contiguity and non-decreasing terms are representation invariants (wf_unstable, wf_ms, wf_raftLog) preserved by every " +
			"operation. Across an append: raftLog.maybeAppend accepts exactly when (prev.index, prev.term) matches, then holds the leader's entries at the leader's terms " +
			"(#matches-leader), truncates only from the first real conflict (findConflict), and never touches a slice previously handed out (no-overwrite frames). " +
			"maybeSendAppend sends prev = (Next-1, term(Next-1)). The cross-node induction (Log Matching for all pairs of nodes) is not decided here.",
	},
	"C04": {
		Level: "other",
		Explanation: commonMethod + "Node-local half: votes go only to candidates whose (lastTerm, lastIndex) is at least the voter's (Step#vote-needs-up-to-date-log, " +
			"raftLog.isUpToDate#def); a leader commits only entries of its own term (raftLog.maybeCommit#own-term, raft.maybeCommit#quorum-own-term); becomeLeader appends " +
			"its no-op entry at the new term. The intersection argument over two quorums is not decided here.",
	},
	"C05": {
		Level: "other",
		Explanation: commonMethod + "raft-level half: every message that promises something about durable state (MsgAppResp, MsgVoteResp, MsgPreVoteResp, including the " +
			"leader's self-acknowledgement) is routed to msgsAfterAppend and never to msgs (raft.send#routing-*, and #one-deferred-reply / #self-ack-deferred / " +
			"#vote-replies-deferred on the handlers, appendEntry, becomeLeader and Step); a stale-term MsgStorageAppendResp does not stabilise entries " +
			"(Step#stale-term-ignored); stableTo drops exactly the acknowledged prefix and only on an (index, term) match. At the API layer RawNode.readyWithoutAccept hands out the whole not-in-progress unstable " +
			"tail, the hard state exactly when it differs from the last one handed out, MustSync per its definition, and (sync mode) the immediate messages first; HasReady is true " +
			"whenever the hard state changed. acceptReady " +
			"hands both outboxes over (they are empty afterwards), in sync mode keeps only self-addressed deferred messages (plus the two storage acknowledgements) for Advance, marks the " +
			"unstable tail in progress and remembers the emitted hard state; Ready = readyWithoutAccept; acceptReady is verified as a composition. Advance (which steps the kept " +
			"messages) and the crash model itself are not under contract: the crash-recovery half is not decided here.",
	},
	"C06": {
		Level: "proof",
		Explanation: commonMethod + "Every way the commit index moves is a discharged obligation: on a leader only through raft.maybeCommit, whose postcondition is that the " +
			"new index is acknowledged (by Match) by a majority of every non-empty voter set (jointCommittedByMatch, counting form), is in the log and has the leader's own " +
			"term; stepLeader moves it only on a non-rejecting MsgAppResp (#commit-only-on-ack) and raises exactly the sender's Match (#match-only-up; MsgSnapStatus, " +
			"MsgUnreachable, heartbeats, rejections keep every Match); on a follower commit = max(old, min(leaderCommit, lastNewIndex)) (#commit-clamp) or an installed " +
			"snapshot's index; sendHeartbeat advertises min(Match, committed); the reply to a MsgSnap acknowledges exactly the commit index; committed <= lastIndex is a " +
			"representation invariant. Assumes acknowledgements are truthful (E-msg-wf).",
	},
	"C07": {
		Level: "proof",
		Explanation: commonMethod + "Two-state invariant hs_monotone (Term never decreases; within a term Vote changes only from None; committed never decreases) is a " +
			"postcondition of every function from raft.Step and tickElection down that can write the hard state (become*, reset, campaign, hup, the handlers, restore, " +
			"commitTo, maybeCommit, appliedTo, the three step functions); Step adds the exact term rule (#term-rule), #prevote-changes-nothing and #stale-term-ignored. " +
			"RawNode.readyWithoutAccept emits the hard state exactly when it differs from the previous one and " +
			"HasReady reports every such change. acceptReady remembers it (prevHardSt). Restart: newRaft restores exactly the term and vote that Storage.InitialState reports " +
			"(loadState#restored, newRaft#hard-state-restored) and NewRawNode treats that hard state as already emitted; switchToConfig and applyConfChange keep the hard state " +
			"monotone. Not under contract (assumed): appliedSnap, tickHeartbeat, Advance.",
	},
	"C08": {
		Level: "proof",
		Explanation: commonMethod + "log.go level: nextCommittedEnts returns exactly the window (applying, maxAppliable] cut by the size budget (non-empty maximal prefix), " +
			"acceptApplying / appliedTo move the cursors monotonically with applied <= applying <= committed as representation invariant and the size accounting exact; " +
			"raft.appliedTo never moves applied backwards (max) and stays within commit. RawNode.readyWithoutAccept hands out a batch that ends within (applying, committed] and acceptReady moves the applying cursor to exactly its last index.",
	},
	"C09": {
		Level: "other",
		Explanation: commonMethod + "Node-local half: raft.restore ignores a snapshot at or below the commit index, fast-forwards commit (without touching the log) when the log " +
			"already matches (index, term), otherwise installs it (commit = last = snapshot index), only on a follower that is a member of the snapshot's configuration, " +
			"and keeps the flow-control limits; raftLog.restore / unstable.restore / stableSnapTo postconditions; the MsgSnap reply acknowledges exactly the commit index; " +
			"maybeSendSnapshot sets PendingSnapshot to the snapshot index (<= commit). confchange.Restore and switchToConfig are assumed contracts here.",
	},
	"C10": {
		Level: "other",
		Explanation: commonMethod + "Node-local half: a leader accepts a conf-change entry only if no possibly-unapplied one is pending (pendingConfIndex <= applied) unless " +
			"validation is disabled, otherwise replaces it by an empty entry, and records exactly the index the accepted entry will get (stepLeader#conf-gate, #conf-index, " +
			"loop invariant #pending-conf); becomeLeader sets pendingConfIndex to its last index; hup refuses to campaign while a committed conf change is unapplied " +
			"(hasUnappliedConfChanges is proved to scan exactly (applied, committed], through raftLog.scan and its callback). " +
			"applyConfChange runs the operation selected by the change's shape (raftpb.ConfChangeV2.LeaveJoint/EnterJoint are under contract) on the current tracker and " +
			"installs its result through switchToConfig, both verified against their bodies: the installed configuration satisfies the configuration invariants, every " +
			"progress record is either the carried-over record of a remaining peer (all flow-control fields equal, inflight window shared) or the initial record of a new " +
			"one, a leader that lost its voter status steps down in its term only if StepDownOnRemoval, and the hard state only moves forward. A rejected change panics by " +
			"design; that the application applies only accepted changes is the listed environment assumption E-app-conf. That all nodes derive the same configurations " +
			"(determinism of the operation on equal inputs across nodes) is not decided here.",
	},
	"C11": {
		Level: "other",
		Explanation: commonMethod + "Node-local half of ReadOnlySafe: a read request is queued at the commit index of the moment (addRequest), only once the leader has " +
			"committed an entry of its own term (otherwise it is parked: stepLeader#read-not-before-own-term-commit, released by releasePendingReadIndexMessages only " +
			"after such a commit), released only when a majority of every voter set has acknowledged a heartbeat sent after it (readOnly.maybeAdvance#release in counting " +
			"form, recvAck keeps the maximum), in queue order and as a prefix; a singleton config answers at once at the commit index. Linearizability across nodes is not decided here.",
	},
	"C12": {
		Level: "proof",
		Explanation: commonMethod + "quorum.MajorityConfig.{VoteResult,CommittedIndex} and quorum.JointConfig.{VoteResult,CommittedIndex}: " +
			"the postconditions are the property's own sentences in counting form (cnt over the voter map): Won iff yes >= n/2+1, Lost iff yes+missing < n/2+1; " +
			"committed index r with #{ack >= r} >= n/2+1 (r > 0) and #{ack > r} < n/2+1; joint = minimum with an empty half imposing no constraint. " +
			"Map-range loops are verified for an arbitrary enumeration order with partial-count invariants; the tracker glue (TallyVotes, Committed, QuorumActive, " +
			"RecordVote, IsSingleton) and readOnly.maybeAdvance are proved against the same specifications.",
	},
	"C13": {
		Level: "other",
		Explanation: commonMethod + "First sentence of the property, per operation and for every input: confchange.Changer.{Simple, EnterJoint, LeaveJoint} on a valid " +
			"input return, when they accept, a configuration that satisfies the invariants (every member has a progress record and nothing else has one; staged learners are " +
			"outgoing voters not yet marked; learners are disjoint from both voter sets and marked; a non-joint configuration has no staging and no AutoLeave) with at least one " +
			"voter, and Simple changes the incoming voter set in at most one id; when they reject they return the zero configuration; in both cases the input sets, progress map, " +
			"progress records and inflight windows are not written (the work happens on fresh copies: checkAndCopy, tracker.Config.Clone). checkInvariants is proved to imply the " +
			"invariants when it returns nil; apply/makeVoter/makeLearner/remove/initProgress carry the working-state invariant. symdiff (count of the symmetric difference) is an " +
			"assumed contract. The progress records of an accepted result are pairwise distinct and each is the carried-over copy of the input's record for that id or an initial " +
			"record (records_result). ProgressTracker.ConfState lists each of the four id sets exactly once in ascending order (ids_of, via MajorityConfig.Slice) and copies AutoLeave; " +
			"raft.applyConfChange/switchToConfig install exactly the returned configuration. Second sentence (Restore reproduces an equivalent configuration from a ConfState) is NOT " +
			"decided: confchange.Restore and ConfState.Equivalent are not under contract (raft.restore only proves that Restore is handed a fresh empty tracker).",
	},
	"C14": {
		Level: "other",
		Explanation: commonMethod + "For every function under contract, each Panicf/panic site, nil dereference, index/slice bound and division is an obligation discharged " +
			"under the function's stated usage preconditions (labelled [C14]: E-msg-wf message well-formedness, E-ready-contract, E-app-conf, A-arith); callers discharge " +
			"callee preconditions. What is proved is: no assertion fires in these functions when the listed preconditions hold; that contract-respecting usage implies " +
			"the preconditions at the API boundary is decided for part of the boundary: newRaft/NewRawNode establish the node invariant from a valid Config and a consistent " +
			"Storage; RawNode.Step rejects local-only message types from the network and responses from unknown peers without touching the node; for Campaign, Propose, ProposeConfChange, ReadIndex, " +
			"TransferLeader, ReportUnreachable, ReportSnapshot and ForgetLeader the well-formedness of the stepped message is proved, not assumed. Tick, Advance, " +
			"ApplyConfChange (RawNode wrapper) and Bootstrap are not under contract. Found and fixed F-1 (MemoryStorage.Term).",
	},
	"C16": {
		Level: "proof",
		Explanation: commonMethod + "limitSize (non-empty maximal prefix within the budget), Inflights ring buffer (count <= size; Add requires not Full; FreeLE frees exactly " +
			"the maximal prefix), Progress flow control (SentEntries/IsPaused), maybeSendAppend (no entries while the window is full; message size within maxMsgSize unless " +
			"a single entry), uncommitted-size accounting (increase refuses exactly when it would pass the limit and the tail is non-empty; reduce saturates at 0; " +
			"Step reduces by the payload size of what was applied), restore keeps MaxInflight/MaxInflightBytes. No append to a peer with a pending snapshot: " +
			"maybeSendAppend/sendAppend send nothing to a peer in StateSnapshot and leave State and PendingSnapshot alone, and stepLeader leaves the sender's pending snapshot " +
			"pending on MsgUnreachable, MsgHeartbeatResp, MsgTransferLeader and rejected MsgAppResp (#snapshot-stays-pending; it is resolved only by MsgSnapStatus or an " +
			"accepting MsgAppResp). A configuration change carries the flow-control state of remaining peers over unchanged and starts new peers with an empty window of the configured size.",
	},
	"C17": {
		Level: "other",
		Explanation: commonMethod + "Node-local half: a vote request inside the leader lease is ignored without any state change (Step#in-lease-ignored); MsgPreVote never " +
			"changes term, vote, role or timers (#prevote-changes-nothing); a granted MsgPreVoteResp from the future does not make the node adopt that term (#term-rule); " +
			"a pre-candidate starts the real election only on a Won pre-vote tally (campaign#prevote-won) and tallies only its own response type (stepCandidate#ignored); " +
			"CheckQuorum: the leader steps down iff no quorum was recently active and then marks every peer inactive (stepLeader#check-quorum, QuorumActive in counting form); " +
			"only a response from the peer itself (MsgAppResp, MsgHeartbeatResp) marks it recently active; MsgUnreachable, MsgSnapStatus and MsgTransferLeader do not " +
			"(stepLeader#recent-active-only-on-response); a leader contact of any kind (MsgApp, MsgHeartbeat, MsgSnap) renews the follower's lease (stepFollower#leader-contact); " +
			"leader transfer bookkeeping (#transfer). The timing bound over several ticks is not decided here.",
	},
	"C18": {
		Level: "proof",
		Explanation: commonMethod + "The log storage views against an abstract log: MemoryStorage (compaction point = ents[0].Index, " +
			"contiguous entries) and unstable (offset, contiguous entries, pending snapshot) carry representation invariants (wf_ms, wf_unstable) that every " +
			"operation is proved to preserve, and each query/update has a functional postcondition over the abstract view: exact ErrCompacted/ErrUnavailable ranges, " +
			"term-at, entry windows with limitSize semantics (non-empty maximal prefix within the budget), Append = keep-prefix ++ new entries, Compact, " +
			"stableTo dropping exactly the acknowledged prefix only when (index, term) matches (ABA), truncateAndAppend's three cases, and no-overwrite frames " +
			"(no cell of a previously exposed backing-array window is written); the combined raftLog view (term, slice, entries, firstIndex/lastIndex) is proved against both. " +
			"MemoryStorage.ApplySnapshot refuses a snapshot that is not newer than the stored one and leaves the log alone, CreateSnapshot only moves forward and never touches the entries; " +
			"newLogWithSize starts the combined view at the storage's compaction point.",
	},
	"C19": {
		Level: "other",
		Explanation: commonMethod + "Partial: every verified postcondition that fixes an output exactly makes that output a function of the inputs; the places where Go's " +
			"map iteration order could leak are covered where under contract: TallyVotes counts are order-free, campaign sends in sorted id order (loop invariants over the " +
			"sorted slice), JointConfig.IDs / CommittedIndex / VoteResult are proved for an arbitrary enumeration order, callers of ProgressTracker.Visit are verified " +
			"against an ascending-key iteration, and Visit's own body is verified against that promise with a ghost log of its callback invocations (exactly len(map) calls, strictly " +
			"ascending keys, each with the map's current value; the callback is arbitrary code). The only randomness, lockedRand.Intn, is an assumed contract (result in [0, n)). " +
			"That equal inputs give equal outputs for whole Ready structs is not decided (RawNode is not under contract).",
	},
	"C20": {
		Level: "other",
		Explanation: commonMethod + "Node-local half: a proposal is either dropped with nothing changed (ErrProposalDropped: no leader, forwarding disabled, leader transfer in " +
			"progress, not a member, size limit — #prop-dropped / #dropped-untouched) or forwarded unchanged to the leader (stepFollower#prop-forwarded) or appended as exactly " +
			"len(entries) new entries stamped (Term, last+1+i) with the inputs' type/term/index/payload length untouched (appendEntry#appended, #inputs-untouched, " +
			"stepLeader#prop-result); raft itself originates only the empty entry of a new leader and neutralised conf changes. Payload bytes of the clones " +
			"(#faithful) are stated but not yet discharged; duplication across retries is a history property and is not decided here.",
	},
}
