package main

// propTable: the properties claimed, their level and an honest statement of what the obligations decide.
// Filled in as checks are built; a property absent here is listed under not_applicable in MANIFEST.json.
var propTable = map[string]propInfo{
	"C18": {
		Level: "proof",
		Explanation: "Contract-based deductive verification of the log storage views against an abstract log: MemoryStorage (compaction point = ents[0].Index, " +
			"contiguous entries) and unstable (offset, contiguous entries, pending snapshot) carry representation invariants (wf_ms, wf_unstable) that every " +
			"operation is proved to preserve, and each query/update has a functional postcondition over the abstract view: exact ErrCompacted/ErrUnavailable ranges, " +
			"term-at, entry windows with limitSize semantics (non-empty maximal prefix within the budget), Append = keep-prefix ++ new entries, Compact, " +
			"stableTo dropping exactly the acknowledged prefix only when (index, term) matches (ABA), truncateAndAppend's three cases, and no-overwrite frames " +
			"(no cell of a previously exposed backing-array window is written). Induction over the operation sequence is the trivial one (invariant + per-call contracts).",
	},
	"C12": {
		Level: "proof",
		Explanation: "Contract-based deductive verification of quorum.MajorityConfig.{VoteResult,CommittedIndex} and quorum.JointConfig.{VoteResult,CommittedIndex}: " +
			"the postconditions are the property's own sentences in counting form (cnt over the voter map): Won iff yes >= n/2+1, Lost iff yes+missing < n/2+1; " +
			"committed index r with #{ack >= r} >= n/2+1 (r > 0) and #{ack > r} < n/2+1; joint = minimum with an empty half imposing no constraint. " +
			"Map-range loops are verified for an arbitrary enumeration order with partial-count invariants; all obligations are unbounded VCs over the real SSA.",
	},
	"C16": {
		Level: "proof",
		Explanation: "Contract-based deductive verification of the real Go code: every function that implements a clause of the property " +
			"(limitSize, Inflights.{Add,FreeLE,grow,reset,Full}, ...) carries requires/ensures/loop-invariant contracts in a comment-only file; " +
			"govc rebuilds go/ssa from /repo's working tree, generates weakest-precondition style verification conditions " +
			"(postconditions, loop-invariant entry/preservation, variants, callee preconditions at call sites, nil/bounds/panic freedom) " +
			"with exact 64-bit wrap-around arithmetic, and discharges each one with z3/cvc5 for all inputs, with no bound.",
	},
}
