package main

import (
	"fmt"
	"go/types"
	"os"
	"regexp"
	"strconv"
	"strings"
)

// ---------------------------------------------------------------------------------------------
// Script: declarations, facts (assumptions in program order) and obligations of one function.

type Obligation struct {
	ID     string
	Kind   string // post pre inv-entry inv-pres decr panic nil bounds div assert frame lemma cover canary
	Label  string
	Props  []string
	Guard  string
	Goal   string
	NFacts int
	NDecls int
	Pos    string
	Desc   string
	Func   string
	Case   string
	Block  int             // top-level block of the obligation (-1: none)
	Reach  map[int]bool    // blocks whose facts are relevant (ancestors of Block in the CFG); nil: all
	Cur    map[string]bool // heap version symbols current at the obligation
	Cached bool            // the unsat answer was reused from the answer cache (identical script)

	// filled by the solver stage
	Status string // unsat sat unknown timeout error
	Solver string
	TimeS  float64
	Model  string
	Output string
	Bytes  int
}

type Script struct {
	caseTerms []string // entry-state conditions of the contract's case split (named Boolean constants)
	decls     []string
	sigs      map[string]string
	declared  map[string]bool
	dropped   int
	qcount    int
	local     bool
	curBlock  int   // index of the top-level block being translated (-1: none)
	factBlk   []int // per fact: the top-level block it was emitted in (-1: global)
	facts     []string
	obls      []*Obligation
}

func newScript() *Script {
	return &Script{declared: map[string]bool{}, sigs: map[string]string{}, curBlock: -1}
}

func (s *Script) declare(name, sig string) {
	if s.declared[name] {
		return
	}
	s.declared[name] = true
	s.sigs[name] = sig
	s.decls = append(s.decls, "(declare-fun "+name+" "+sig+")")
}

// splitTop splits an s-expression list "(op a b c)" into its top-level elements; ok=false if s is not a list.
func splitTop(s string) (parts []string, ok bool) {
	if len(s) < 2 || s[0] != '(' || s[len(s)-1] != ')' {
		return nil, false
	}
	body := s[1 : len(s)-1]
	d, start, inq := 0, -1, false
	for i := 0; i < len(body); i++ {
		c := body[i]
		if inq {
			if c == '|' {
				inq = false
			}
			continue
		}
		switch c {
		case '|':
			inq = true
			if d == 0 && start < 0 {
				start = i
			}
		case '(':
			if d == 0 && start < 0 {
				start = i
			}
			d++
		case ')':
			d--
			if d < 0 {
				return nil, false
			}
			if d == 0 && start >= 0 {
				parts = append(parts, body[start:i+1])
				start = -1
			}
		case ' ', '\n', '\t':
			if d == 0 && start >= 0 {
				parts = append(parts, body[start:i])
				start = -1
			}
		default:
			if d == 0 && start < 0 {
				start = i
			}
		}
	}
	if start >= 0 {
		parts = append(parts, body[start:])
	}
	return parts, d == 0 && !inq
}

// fact records an assumption. Conjunctions (also under a guard) are stored conjunct by conjunct: smaller clauses for
// the solvers, and the quantifier-free conjuncts survive the quantifier-free first pass of the portfolio.
func (s *Script) fact(f string) {
	if f == "true" || f == "" {
		return
	}
	if strings.HasPrefix(f, "(and ") {
		if parts, ok := splitTop(f); ok && len(parts) > 2 && parts[0] == "and" {
			for _, p := range parts[1:] {
				s.fact(p)
			}
			return
		}
	}
	if strings.HasPrefix(f, "(=> ") {
		if parts, ok := splitTop(f); ok && len(parts) == 3 && strings.HasPrefix(parts[2], "(and ") {
			if cs, ok2 := splitTop(parts[2]); ok2 && len(cs) > 2 && cs[0] == "and" {
				for _, c := range cs[1:] {
					s.fact("(=> " + parts[1] + " " + c + ")")
				}
				return
			}
		}
	}
	// safety net: a fact must not mention a quantifier-bound variable or spec placeholder outside its binder
	if strings.Contains(f, "?") {
		for _, m := range boundVarRe.FindAllString(f, -1) {
			if !strings.Contains(f, "("+m+" Int)") && !strings.Contains(f, "("+m+" Bool)") {
				s.dropped++
				if os.Getenv("GOVC_DEBUG") != "" {
					fmt.Fprintf(os.Stderr, "dropped fact with unbound %s: %.300s\n", m, f)
				}
				return
			}
		}
	}
	if strings.HasPrefix(f, "(forall ") && !strings.Contains(f, ":qid ") {
		if i := strings.LastIndex(f, ":pattern "); i >= 0 {
			s.qcount++
			tag := "eng"
			switch {
			case strings.Contains(f, "|sub$") && strings.Contains(f, "|subinv$"):
				tag = "subinv"
			case strings.HasPrefix(f, "(forall ((o Int)) (! (and (<= ") || strings.HasPrefix(f, "(forall ((o Int)) (! (<= 0") || strings.HasPrefix(f, "(forall ((a Int) (i Int))"):
				tag = "heapver"
			case strings.HasPrefix(f, "(forall ((r Int)) (! (=> (< r "):
				tag = "allocframe"
			case strings.HasPrefix(f, "(forall ((o Int)) (! (=> (and (< 0 o)"):
				tag = "frame"
			case strings.Contains(f, "|ap!"):
				tag = "append"
			case strings.Contains(f, "|cp!"):
				tag = "copy"
			case strings.Contains(f, "|pick!") || strings.Contains(f, "|key!") || strings.Contains(f, "|rank!"):
				tag = "enum"
			case strings.Contains(f, "|OP$"):
				tag = "reveal"
			}
			f = f[:i] + fmt.Sprintf(":qid E%d_%s ", s.qcount, tag) + f[i:]
		}
	}
	s.facts = append(s.facts, f)
	if s.local {
		s.factBlk = append(s.factBlk, s.curBlock)
	} else {
		s.factBlk = append(s.factBlk, -1)
	}
}

// factLocal records a fact that only matters on paths through the block currently being translated (path-guarded
// assumptions and definitions of names introduced there); such facts are sliced away for obligations in blocks that
// the current block cannot reach. All other facts (axioms, type facts, lazily emitted definitions) are global.
func (s *Script) factLocal(f string) {
	s.local = true
	s.fact(f)
	s.local = false
}

// ---------------------------------------------------------------------------------------------
// State: heap variables (SMT arrays or direct Values), allocation counter, path guard.

type State struct {
	vars  map[string]Value
	top   string
	guard string
}

func (st *State) clone() *State {
	n := &State{vars: make(map[string]Value, len(st.vars)+1), top: st.top, guard: st.guard}
	for k, v := range st.vars {
		n.vars[k] = v
	}
	return n
}

// heapSort describes the SMT sort of a heap variable by name prefix.
// F$..., C$...  : (Array Int X)
// E$...         : (Array Int (Array Int X))
// M$...#dom     : (Array Int (Array Int Bool)); M$...#len : (Array Int Int); M$...#val... : (Array Int (Array Int X))
type heapDecl struct {
	name string
	sort string
}

func arr1(s leafSort) string { return "(Array Int " + s.String() + ")" }
func arr2(s leafSort) string { return "(Array Int (Array Int " + s.String() + "))" }

// leaf describes one scalar component of a stored value.
type leaf struct {
	suffix string
	sort   leafSort
}

// leavesOf flattens a type that is stored "inline" (in a cell, an element or a map value) into scalar leaves.
// Struct fields are flattened recursively with ".name" suffixes.
func (tr *Tr) leavesOf(t types.Type) []leaf {
	switch kindOf(t) {
	case kInt:
		return []leaf{{"", sortInt}}
	case kBool:
		return []leaf{{"", sortBool}}
	case kSlice:
		return []leaf{{"#arr", sortInt}, {"#off", sortInt}, {"#len", sortInt}, {"#cap", sortInt}}
	case kIface:
		return []leaf{{"#tag", sortInt}, {"#val", sortInt}}
	case kStruct:
		st := t.Underlying().(*types.Struct)
		var ls []leaf
		for i := 0; i < st.NumFields(); i++ {
			f := st.Field(i)
			if tr.g.ignoredField(t, f) {
				continue
			}
			for _, l := range tr.leavesOf(f.Type()) {
				ls = append(ls, leaf{"." + f.Name() + l.suffix, l.sort})
			}
		}
		return ls
	case kArray:
		at := t.Underlying().(*types.Array)
		var ls []leaf
		for i := int64(0); i < at.Len(); i++ {
			for _, l := range tr.leavesOf(at.Elem()) {
				ls = append(ls, leaf{fmt.Sprintf("@%d%s", i, l.suffix), l.sort})
			}
		}
		return ls
	}
	panic(subsetErr("leavesOf: unsupported type " + t.String()))
}

// valueLeaves flattens a Value into leaf terms in the same order as leavesOf(t).
func (tr *Tr) valueLeaves(v Value, t types.Type) []string {
	switch kindOf(t) {
	case kInt, kBool:
		return []string{tr.asSc(v, t).T}
	case kSlice:
		s := tr.asSl(v)
		return []string{s.Arr, s.Off, s.Len, s.Cap}
	case kIface:
		i := tr.asIf(v)
		return []string{i.Tag, i.Val}
	case kStruct:
		st := t.Underlying().(*types.Struct)
		sv, ok := v.(St)
		if !ok {
			panic(subsetErr(fmt.Sprintf("valueLeaves: expected struct value for %s, got %T", t, v)))
		}
		var out []string
		for i := 0; i < st.NumFields(); i++ {
			if tr.g.ignoredField(t, st.Field(i)) {
				continue
			}
			out = append(out, tr.valueLeaves(sv.F[i], st.Field(i).Type())...)
		}
		return out
	case kArray:
		at := t.Underlying().(*types.Array)
		sv := v.(St)
		var out []string
		for i := int64(0); i < at.Len(); i++ {
			out = append(out, tr.valueLeaves(sv.F[i], at.Elem())...)
		}
		return out
	}
	panic(subsetErr("valueLeaves: unsupported type " + t.String()))
}

// valueFromLeaves is the inverse of valueLeaves; it consumes terms from ls.
func (tr *Tr) valueFromLeaves(t types.Type, ls *[]string) Value {
	pop := func() string { x := (*ls)[0]; *ls = (*ls)[1:]; return x }
	switch kindOf(t) {
	case kInt:
		return Sc{T: pop()}
	case kBool:
		return Sc{T: pop(), Bool: true}
	case kSlice:
		return Sl{pop(), pop(), pop(), pop()}
	case kIface:
		return If{pop(), pop()}
	case kStruct:
		st := t.Underlying().(*types.Struct)
		out := St{F: make([]Value, st.NumFields())}
		for i := 0; i < st.NumFields(); i++ {
			if tr.g.ignoredField(t, st.Field(i)) {
				out.F[i] = Sc{T: "0"}
				continue
			}
			out.F[i] = tr.valueFromLeaves(st.Field(i).Type(), ls)
		}
		return out
	case kArray:
		at := t.Underlying().(*types.Array)
		out := St{F: make([]Value, at.Len())}
		for i := int64(0); i < at.Len(); i++ {
			out.F[i] = tr.valueFromLeaves(at.Elem(), ls)
		}
		return out
	}
	panic(subsetErr("valueFromLeaves: unsupported type " + t.String()))
}

func (tr *Tr) zeroValue(t types.Type) Value {
	var ls []string
	for _, l := range tr.leavesOf(t) {
		ls = append(ls, zeroOf(l.sort))
	}
	return tr.valueFromLeaves(t, &ls)
}

// ---------------------------------------------------------------------------------------------
// Heap variable access

func (tr *Tr) heapVar(st *State, name string, sort string) string {
	if v, ok := st.vars[name]; ok {
		return v.(Sc).T
	}
	if v, ok := tr.initVars[name]; ok {
		return v.(Sc).T
	}
	sym := smtName(name + "@0")
	tr.sc.declare(sym, "() "+sort)
	tr.initVars[name] = Sc{T: sym}
	tr.heapSorts[name] = sort
	tr.symTop[sym] = "|top@0|"
	tr.heapVersionAxiom(name, sym, sort, "|top@0|")
	return sym
}

func (tr *Tr) setHeapVar(st *State, name, sort, term string) {
	// make sure the initial version exists so that old() and frames can refer to it
	tr.heapVar(st, name, sort)
	st.vars[name] = Sc{T: term}
	if _, ok := tr.symTop[term]; !ok {
		tr.symTop[term] = st.top
	}
}

// structFieldPrefix returns the heap prefix of field i of struct type t.
func fieldPrefix(t types.Type, fname string) string {
	return "F$" + typeKey(t) + "." + fname
}

func cellPrefix(t types.Type) string { return "C$" + typeKey(t) }
func elemPrefix(t types.Type) string { return "E$" + typeKey(t) }

// loadAt reads a value of type t from location l in state st.
func (tr *Tr) loadAt(st *State, l Loc, t types.Type) Value {
	switch l.Kind {
	case LVar:
		if v, ok := st.vars[l.Prefix]; ok {
			return v
		}
		if v, ok := tr.initVars[l.Prefix]; ok {
			return v
		}
		if strings.HasPrefix(l.Prefix, "G$") && kindOf(t) == kIface {
			return tr.loadGlobal(st, l, t)
		}
		v := tr.freshValue(t, l.Prefix, st)
		tr.initVars[l.Prefix] = v
		return v
	}
	k := kindOf(t)
	if k == kStruct && l.Kind != LElem {
		// struct object at a reference
		ref := l.Ref
		if l.Kind == LField {
			ref = tr.subRefOfLoc(l)
		}
		st2 := t.Underlying().(*types.Struct)
		out := St{F: make([]Value, st2.NumFields())}
		for i := 0; i < st2.NumFields(); i++ {
			f := st2.Field(i)
			if tr.g.ignoredField(t, f) {
				out.F[i] = Sc{T: "0"}
				continue
			}
			out.F[i] = tr.loadAt(st, Loc{Kind: LField, Prefix: fieldPrefix(t, f.Name()), Ref: ref}, f.Type())
		}
		return out
	}
	if k == kArray && l.Kind != LElem {
		ref := l.Ref
		if l.Kind == LField {
			ref = tr.subRefOfLoc(l)
		}
		at := t.Underlying().(*types.Array)
		if at.Len() > 8 {
			panic(subsetErr("load of large array by value"))
		}
		out := St{F: make([]Value, at.Len())}
		for i := int64(0); i < at.Len(); i++ {
			out.F[i] = tr.loadAt(st, Loc{Kind: LElem, Prefix: elemPrefix(at.Elem()), Ref: ref, Idx: fmt.Sprint(i)}, at.Elem())
		}
		return out
	}
	tr.markHeapKinds(l, t)
	var terms []string
	isRef := kindOf(t) == kInt && !isString(t)
	if isRef {
		if _, _, isInt := intRange(t); isInt {
			isRef = false
		}
	}
	for _, lf := range tr.leavesOf(t) {
		term := tr.loadLeaf(st, l, lf)
		terms = append(terms, term)
		if (isRef && lf.suffix == "" || strings.HasSuffix(lf.suffix, "#arr")) && tr.lastLoadTop != "" && !strings.Contains(term, "?") {
			key := "reftop:" + term + tr.lastLoadTop
			if !tr.typeFactDone[key] {
				tr.typeFactDone[key] = true
				// a reference read from a heap version is older than the allocation counter at that version's creation
				tr.sc.fact(sLt(term, tr.lastLoadTop))
			}
		}
	}
	v := tr.valueFromLeaves(t, &terms)
	tr.assumeTypeFacts(v, t, st)
	return v
}

func (tr *Tr) subRefOfLoc(l Loc) string {
	// l.Prefix is F$<type>.<field>
	p := strings.TrimPrefix(l.Prefix, "F$")
	fn := smtName("sub$" + p)
	if !tr.sc.declared[fn] {
		tr.sc.declare(fn, "(Int) Int")
		inv := smtName("subinv$" + p)
		tr.sc.declare(inv, "(Int) Int")
		tr.sc.fact(fmt.Sprintf("(forall ((o Int)) (! (and (= (%s (%s o)) o) (=> (> o 0) (> (%s o) 0))) :pattern ((%s o))))", inv, fn, fn, fn))
	}
	t := "(" + fn + " " + l.Ref + ")"
	if g, ok := tr.refGap[l.Ref]; ok && tr.specMode == 0 {
		if _, done := tr.refGap[t]; !done {
			tr.refGap[t] = g
			tr.sc.fact(fmt.Sprintf("(and (<= %s %s) (< %s %s))", g[0], t, t, g[1]))
		}
	}
	// an embedded sub-object is allocated together with its owner: for every allocation counter value that frames
	// refer to, "owner allocated before" is equivalent to "sub-object allocated before" (instantiated per known counter)
	if !strings.Contains(l.Ref, "?") {
		if _, known := tr.subTerms[t]; !known {
			tr.subTerms[t] = l.Ref
			for _, top := range tr.frameTops {
				tr.sc.fact(fmt.Sprintf("(= (< %s %s) (< %s %s))", l.Ref, top, t, top))
			}
		}
	}
	return t
}

// noteFrameTop records an allocation-counter value used in a frame axiom and relates all known sub-object references to it.
func (tr *Tr) noteFrameTop(top string) {
	for _, t := range tr.frameTops {
		if t == top {
			return
		}
	}
	tr.frameTops = append(tr.frameTops, top)
	for _, t := range sortedKeys(tr.subTerms) {
		tr.sc.fact(fmt.Sprintf("(= (< %s %s) (< %s %s))", tr.subTerms[t], top, t, top))
	}
}

// storeRec remembers how a named heap version was produced, for syntactic read-over-write simplification.
type storeRec struct {
	base, ref, idx, val string
}

func (tr *Tr) loadLeaf(st *State, l Loc, lf leaf) string {
	switch l.Kind {
	case LField, LCell:
		h := tr.heapVar(st, l.Prefix+lf.suffix, arr1(lf.sort))
		cur := h
		for {
			rec, ok := tr.stores[cur]
			if !ok {
				break
			}
			if rec.ref == l.Ref {
				tr.lastLoadTop = ""
				return rec.val
			}
			if tr.distinctFromFresh(rec.ref, l.Ref) {
				cur = rec.base
				continue
			}
			break
		}
		tr.lastLoadTop = tr.symTop[cur]
		return sSel(cur, l.Ref)
	case LElem:
		h := tr.heapVar(st, l.Prefix+lf.suffix, arr2(lf.sort))
		cur := h
		for {
			rec, ok := tr.stores[cur]
			if !ok || rec.idx == "" {
				break
			}
			if rec.ref == l.Ref && (rec.idx == l.Idx || rec.idx == "*") {
				tr.lastLoadTop = ""
				return rec.val
			}
			if rec.ref == l.Ref && rec.idx != "*" && isLiteral(rec.idx) && isLiteral(l.Idx) {
				cur = rec.base
				continue
			}
			if rec.ref != l.Ref && tr.distinctFromFresh(rec.ref, l.Ref) {
				cur = rec.base
				continue
			}
			break
		}
		tr.lastLoadTop = tr.symTop[cur]
		return sSel(sSel(cur, l.Ref), l.Idx)
	}
	panic("loadLeaf")
}

// storeAt writes v of type t to location l, updating st in place.
func (tr *Tr) storeAt(st *State, l Loc, t types.Type, v Value) {
	switch l.Kind {
	case LVar:
		st.vars[l.Prefix] = v
		return
	}
	k := kindOf(t)
	if k == kStruct && l.Kind != LElem {
		ref := l.Ref
		if l.Kind == LField {
			ref = tr.subRefOfLoc(l)
		}
		st2 := t.Underlying().(*types.Struct)
		sv, ok := v.(St)
		if !ok {
			panic(subsetErr(fmt.Sprintf("store of non-struct value %T into struct %s", v, t)))
		}
		for i := 0; i < st2.NumFields(); i++ {
			f := st2.Field(i)
			if tr.g.ignoredField(t, f) {
				continue
			}
			tr.storeAt(st, Loc{Kind: LField, Prefix: fieldPrefix(t, f.Name()), Ref: ref}, f.Type(), sv.F[i])
		}
		return
	}
	if k == kArray && l.Kind != LElem {
		ref := l.Ref
		if l.Kind == LField {
			ref = tr.subRefOfLoc(l)
		}
		at := t.Underlying().(*types.Array)
		sv := v.(St)
		for i := int64(0); i < at.Len(); i++ {
			tr.storeAt(st, Loc{Kind: LElem, Prefix: elemPrefix(at.Elem()), Ref: ref, Idx: fmt.Sprint(i)}, at.Elem(), sv.F[i])
		}
		return
	}
	tr.markHeapKinds(l, t)
	lvs := tr.leavesOf(t)
	terms := tr.valueLeaves(v, t)
	for i, lf := range lvs {
		tr.storeLeaf(st, l, lf, terms[i])
	}
}

func (tr *Tr) storeLeaf(st *State, l Loc, lf leaf, term string) {
	switch l.Kind {
	case LField, LCell:
		name := l.Prefix + lf.suffix
		h := tr.heapVar(st, name, arr1(lf.sort))
		sym := tr.nameTerm(name, arr1(lf.sort), sStore(h, l.Ref, term))
		tr.stores[sym] = storeRec{base: h, ref: l.Ref, val: term}
		if tr.freshRefs[l.Ref] {
			tr.allocParent[sym] = h
		} else {
			tr.propagateOpaqueOverStore(h, sym, l.Ref)
		}
		tr.setHeapVar(st, name, arr1(lf.sort), sym)
	case LElem:
		name := l.Prefix + lf.suffix
		h := tr.heapVar(st, name, arr2(lf.sort))
		sym := tr.nameTerm(name, arr2(lf.sort), sStore(h, l.Ref, sStore(sSel(h, l.Ref), l.Idx, term)))
		tr.stores[sym] = storeRec{base: h, ref: l.Ref, idx: l.Idx, val: term}
		if tr.freshRefs[l.Ref] {
			tr.allocParent[sym] = h
		} else {
			tr.propagateOpaqueOverStore(h, sym, l.Ref)
		}
		tr.setHeapVar(st, name, arr2(lf.sort), sym)
	default:
		panic("storeLeaf")
	}
}

// nameTerm introduces a fresh constant equal to term (keeps terms small and shared).
func (tr *Tr) nameTerm(base, sort, term string) string {
	if tr.specMode > 0 {
		return term
	}
	tr.fresh++
	sym := smtName(fmt.Sprintf("%s@%d", base, tr.fresh))
	tr.sc.declare(sym, "() "+sort)
	tr.sc.factLocal(sEq(sym, term))
	return sym
}

// leafNames lists the heap variable names touched when a value of type t is written at a location
// of the given kind/prefix. Used by the mod-set analysis (type based, no terms).
func (g *Global) leafHeapNames(kind LocKind, prefix string, t types.Type, out map[string]bool) {
	k := kindOf(t)
	if k == kStruct && kind != LElem {
		st := t.Underlying().(*types.Struct)
		for i := 0; i < st.NumFields(); i++ {
			f := st.Field(i)
			if g.ignoredField(t, f) {
				continue
			}
			g.leafHeapNames(LField, fieldPrefix(t, f.Name()), f.Type(), out)
		}
		return
	}
	if k == kArray && kind != LElem {
		at := t.Underlying().(*types.Array)
		g.leafHeapNames(LElem, elemPrefix(at.Elem()), at.Elem(), out)
		return
	}
	for _, lf := range g.leavesOfT(t) {
		out[prefix+lf.suffix] = true
	}
}

func (g *Global) leavesOfT(t types.Type) []leaf {
	tr := &Tr{g: g}
	return tr.leavesOf(t)
}

// mapHeaps returns the heap prefixes of a map type.
func mapPrefix(t types.Type) string { return "M$" + typeKey(t.Underlying().(*types.Map)) }

// ignoredField reports fields that are not modelled (protobuf internals, mutexes).
func (g *Global) ignoredField(owner types.Type, f *types.Var) bool {
	switch f.Name() {
	case "state", "unknownFields", "sizeCache":
		if n, ok := owner.(*types.Named); ok && n.Obj().Pkg() != nil && n.Obj().Pkg().Name() == "raftpb" {
			return true
		}
	}
	tk := typeKey(f.Type())
	switch tk {
	case "sync.Mutex", "sync.RWMutex", "protoimpl.MessageState", "protoimpl.SizeCache", "protoimpl.UnknownFields":
		return true
	}
	return false
}

var symCounterRe = regexp.MustCompile(`[!@]([0-9]+)\|`)

// distinctFromFresh: fresh is a reference allocated by this function; other is a reference term. They are distinct if
// other is a different fresh reference, or if other only mentions symbols created before fresh was allocated
// (a value computable before the allocation cannot be the new object).
func (tr *Tr) distinctFromFresh(fresh, other string) bool {
	if !tr.freshRefs[fresh] || fresh == other {
		return false
	}
	if tr.freshRefs[other] {
		return true
	}
	fm := symCounterRe.FindStringSubmatch(fresh)
	if fm == nil {
		return false
	}
	fn, _ := strconv.Atoi(fm[1])
	ms := symCounterRe.FindAllStringSubmatch(other, -1)
	if len(ms) == 0 {
		return false
	}
	for _, m := range ms {
		n, _ := strconv.Atoi(m[1])
		if n >= fn {
			return false
		}
	}
	return !strings.Contains(other, "?")
}

// markHeapKinds records, per heap variable, what its cells hold (a reference, or an integer of a given type), so that
// well-typedness of whole heap versions can be stated as quantified axioms.
func (tr *Tr) markHeapKinds(l Loc, t types.Type) {
	if l.Kind == LVar {
		return
	}
	k := kindOf(t)
	switch k {
	case kInt:
		name := l.Prefix
		if _, done := tr.heapKind[name]; done {
			return
		}
		if lo, hi, ok := intRange(t); ok {
			tr.heapKind[name] = "int:" + lo + ":" + hi
		} else if isString(t) {
			tr.heapKind[name] = "nonneg"
		} else {
			tr.heapKind[name] = "ref"
		}
	case kSlice:
		if _, done := tr.heapKind[l.Prefix+"#arr"]; done {
			return
		}
		tr.heapKind[l.Prefix+"#arr"] = "ref"
		tr.heapKind[l.Prefix+"#off"] = "nonneg"
		tr.heapKind[l.Prefix+"#len"] = "int:0:2147483648" // A-arith: slice windows <= 2^31 elements
		tr.heapKind[l.Prefix+"#cap"] = "int:0:2147483648"
	case kIface:
		tr.heapKind[l.Prefix+"#tag"] = "nonneg"
	}
}

// heapVersionAxiom states well-typedness of every cell of a heap version that is not defined by a store:
// references are allocated (below the allocation counter at the version's creation), integers are in range.
func (tr *Tr) heapVersionAxiom(name, sym, sort, top string, local ...bool) {
	kind, ok := tr.heapKind[name]
	if !ok {
		tr.g.heapRegistry() // fills the type-derived kinds
		kind, ok = tr.g.heapKinds[name]
		if !ok {
			return
		}
	}
	if kind == "nonneg" {
		return
	}
	var sel, vars, pat string
	switch sort {
	case "(Array Int Int)":
		sel, vars = "(select "+sym+" o)", "((o Int))"
	case "(Array Int (Array Int Int))":
		sel, vars = "(select (select "+sym+" a) i)", "((a Int) (i Int))"
	default:
		return
	}
	pat = sel
	var body string
	switch {
	case kind == "ref":
		body = fmt.Sprintf("(and (<= 0 %s) (< %s %s))", sel, sel, top)
	case kind == "nonneg":
		body = fmt.Sprintf("(<= 0 %s)", sel)
	case strings.HasPrefix(kind, "int:"):
		parts := strings.SplitN(kind, ":", 3)
		body = fmt.Sprintf("(and (<= %s %s) (<= %s %s))", parts[1], sel, sel, parts[2])
	}
	f := fmt.Sprintf("(forall %s (! %s :pattern (%s)))", vars, body, pat)
	if len(local) > 0 && local[0] {
		// the version was created by a havoc in the current block: only code reached from here can mention it
		tr.sc.factLocal(f)
		return
	}
	tr.sc.fact(f)
}
