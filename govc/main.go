package main

import (
	"context"
	"encoding/json"
	"flag"
	"fmt"
	"os"
	"path/filepath"
	"sort"
	"strings"
	"time"
)

var (
	repoDir     = "/repo"
	verifDir    = "/verif"
	contractDir = "/verif/contracts"
)

func contractFiles() []string {
	var out []string
	// library contracts live only in /verif
	libs, _ := filepath.Glob(filepath.Join(contractDir, "lib", "*.go"))
	out = append(out, libs...)
	for _, pd := range []struct{ dir, name string }{{"", "raft"}, {"quorum", "quorum"}, {"tracker", "tracker"}, {"confchange", "confchange"}, {"raftpb", "raftpb"}} {
		inRepo := filepath.Join(repoDir, pd.dir, "zz_contracts_verif.go")
		mirror := filepath.Join(contractDir, pd.name, "zz_contracts_verif.go")
		// The files in /repo (hook commit, build tag verif) and the mirror in /verif/contracts are kept byte-identical
		// (govc sync). The mirror is read when present so that a tree restored without the hook commit is checked
		// against the same contracts; a difference between the two is reported.
		if _, err := os.Stat(mirror); err == nil {
			out = append(out, mirror)
			a, _ := os.ReadFile(mirror)
			b, err := os.ReadFile(inRepo)
			if err != nil || string(a) != string(b) {
				fmt.Fprintf(os.Stderr, "note: %s differs from its mirror %s (run govc sync)\n", inRepo, mirror)
			}
		} else if _, err := os.Stat(inRepo); err == nil {
			out = append(out, inRepo)
		}
	}
	return out
}

func main() {
	if len(os.Args) < 2 {
		fmt.Fprintln(os.Stderr, "usage: govc <check|verify|dump|loops|list> ...")
		os.Exit(2)
	}
	switch os.Args[1] {
	case "verify":
		cmdVerify(os.Args[2:])
	case "check":
		cmdCheck(os.Args[2:])
	case "loops":
		cmdLoops(os.Args[2:])
	case "list":
		cmdList(os.Args[2:])
	case "sync":
		cmdSync(os.Args[2:])
	case "props":
		// the claimed properties as JSON (single source for MANIFEST.json: tools/mkmanifest.py)
		enc := json.NewEncoder(os.Stdout)
		enc.SetIndent("", " ")
		enc.Encode(propTable)
	case "replay":
		cmdReplay(os.Args[2:])
	case "mods":
		// debugging aid: the mod-set a caller assumes for the given functions (heap name, mutate/alloc-only)
		g := mustLoad()
		for _, k := range os.Args[2:] {
			f := g.funcs[k]
			if f == nil {
				fmt.Println(k, ": unknown")
				continue
			}
			ms := g.modsetFor(k, g.contracts.Funcs[k], f)
			for _, n := range sortedKeys(ms) {
				kind := "alloc-only"
				if ms[n].mutates {
					kind = "mutates"
				}
				fmt.Printf("%s  %-60s %s\n", k, n, kind)
			}
		}
	default:
		fmt.Fprintln(os.Stderr, "unknown command", os.Args[1])
		os.Exit(2)
	}
}

func mustLoad() *Global {
	if r := os.Getenv("GOVC_REPO"); r != "" {
		repoDir = r
	}
	if c := os.Getenv("GOVC_CONTRACTS"); c != "" {
		contractDir = c // development aid: work on a scratch copy of the contract files
	}
	t0 := time.Now()
	g, err := loadGlobal(repoDir, contractFiles())
	if err != nil {
		fmt.Fprintln(os.Stderr, "load failed:", err)
		os.Exit(2)
	}
	fmt.Fprintf(os.Stderr, "loaded /repo SSA + %d contract files in %.1fs\n", len(g.contracts.Files), time.Since(t0).Seconds())
	return g
}

func cmdVerify(args []string) {
	fs := flag.NewFlagSet("verify", flag.ExitOnError)
	timeout := fs.Int("t", 30, "solver timeout (s)")
	dump := fs.String("dump", "", "obligation id (substring) to dump as SMT-LIB to stdout")
	all := fs.Bool("all", false, "run all solvers")
	verbose := fs.Bool("v", false, "print every obligation")
	useCache := fs.Bool("cache", false, "reuse and record proved scripts in the answer cache (as the check command does)")
	unq := fs.Bool("unq", false, "for undecided obligations, look for a candidate model with quantified facts removed (debugging aid)")
	fs.Parse(args)
	if *useCache {
		initAnswerCache()
	}
	g := mustLoad()
	keys := fs.Args()
	if len(keys) == 0 {
		for _, k := range g.sortedContractKeys() {
			fc := g.contracts.Funcs[k]
			// inline-only blocks (loop invariants of functions verified in the context of their callers), trusted contracts and
			// interface contracts have no body of their own to verify
			if fc.Inline || fc.Trusted || g.funcs[k] == nil {
				continue
			}
			keys = append(keys, k)
		}
	}
	bad := 0
	if len(fs.Args()) == 0 {
		for _, n := range sortedKeys(g.contracts.Lemmas) {
			keys = append(keys, "lemma."+n)
		}
		for _, n := range sortedKeys(g.contracts.Specs) {
			if g.contracts.Specs[n].Opaque {
				keys = append(keys, "stable."+n)
			}
		}
	}
	for _, k := range keys {
		fc := g.contracts.Funcs[k]
		if strings.HasPrefix(k, "lemma.") || strings.HasPrefix(k, "stable.") {
			fc = &FuncContract{Key: k}
		}
		if fc == nil {
			fmt.Printf("%s: no contract\n", k)
			bad++
			continue
		}
		if !strings.HasPrefix(k, "lemma.") && !strings.HasPrefix(k, "stable.") && (fc.Trusted || g.funcs[k] == nil || len(g.funcs[k].Blocks) == 0) {
			if len(keys) < 5 {
				fmt.Printf("%s: trusted/external, skipped\n", k)
			}
			continue
		}
		t0 := time.Now()
		var res *FuncResult
		if strings.HasPrefix(k, "lemma.") {
			res = g.verifyLemma(strings.TrimPrefix(k, "lemma."))
		} else if strings.HasPrefix(k, "stable.") {
			res = g.verifyStable(strings.TrimPrefix(k, "stable."))
		} else {
			res = g.verifyFunc(k)
		}
		if res.Err != nil {
			fmt.Printf("%s: ERROR %v\n%s", k, res.Err, res.Stack)
			bad++
			if res.Tr == nil {
				continue
			}
		}
		sc := res.Tr.sc
		if *dump != "" {
			for _, ob := range sc.obls {
				if strings.Contains(ob.ID, *dump) {
					fmt.Println("; " + ob.ID + " :: " + ob.Desc)
					fmt.Print(sc.render(ob, "", true))
					return
				}
			}
		}
		var jobs []job
		for _, ob := range sc.obls {
			jobs = append(jobs, job{sc, ob})
		}
		dischargeAll(jobs, *timeout, 12, *all)
		ok, fail := 0, 0
		for _, ob := range sc.obls {
			if ob.Status == "unsat" {
				ok++
				if *verbose {
					fmt.Printf("   ok   %-60s %s %.2fs %s\n", ob.ID, ob.Solver, ob.TimeS, ob.Pos)
				}
			} else {
				fail++
				fmt.Printf("   FAIL %-60s %s [%s] %s\n        %s\n        %s\n", ob.ID, ob.Status, ob.Pos, ob.Output, ob.Desc, modelSummary(ob.Model))
				if *unq && ob.Status != "sat" {
					fmt.Printf("        candidate (quantifier-free relaxation): %s\n", candidateModel(sc, ob))
				}
			}
		}
		bad += fail
		fmt.Printf("%s: %d obligations, %d discharged, %d failed (%.1fs, %d facts, %d decls, %d dropped)\n", k, len(sc.obls), ok, fail, time.Since(t0).Seconds(), len(sc.facts), len(sc.decls), sc.dropped)
	}
	if bad > 0 {
		os.Exit(1)
	}
}

func modelSummary(m string) string {
	if m == "" {
		return ""
	}
	var keep []string
	lines := strings.Split(m, "\n")
	for i := 0; i < len(lines); i++ {
		l := lines[i]
		if strings.Contains(l, "define-fun") && strings.Contains(l, "() Int") && !strings.Contains(l, "@") && !strings.Contains(l, "!") == false {
			val := ""
			if i+1 < len(lines) {
				val = strings.TrimSpace(lines[i+1])
			}
			name := strings.Fields(strings.TrimSpace(l))
			if len(name) > 1 {
				keep = append(keep, name[1]+"="+strings.TrimSuffix(val, ")"))
			}
		}
	}
	sort.Strings(keep)
	if len(keep) > 40 {
		keep = keep[:40]
	}
	return "model: " + strings.Join(keep, " ")
}

func cmdLoops(args []string) {
	g := mustLoad()
	for _, k := range args {
		fn := g.funcs[k]
		if fn == nil {
			fmt.Println(k, ": not found")
			continue
		}
		tr := newTr(g, fn, k, nil)
		fr := tr.newFrame(fn, 0, true)
		type li struct {
			ord int
			pos string
			hdr int
		}
		var ls []li
		for h, l := range fr.loops {
			ls = append(ls, li{l.ordinal, g.prog.Fset.Position(loopPos(l)).String(), h.Index})
		}
		sort.Slice(ls, func(i, j int) bool { return ls[i].ord < ls[j].ord })
		fmt.Printf("%s (%s)\n", k, fnSummary(fn))
		for _, l := range ls {
			fmt.Printf("  loop %d: header block %d at %s\n", l.ord, l.hdr, l.pos)
		}
	}
}

func cmdList(args []string) {
	g := mustLoad()
	for _, k := range g.sortedContractKeys() {
		fc := g.contracts.Funcs[k]
		fmt.Printf("%-55s req=%d ens=%d loops=%d trusted=%v props=%v\n", k, len(fc.Requires), len(fc.Ensures), len(fc.Loops), fc.Trusted, fc.Props)
	}
}

func cmdSync(args []string) {
	for _, pd := range []struct{ dir, name string }{{"", "raft"}, {"quorum", "quorum"}, {"tracker", "tracker"}, {"confchange", "confchange"}, {"raftpb", "raftpb"}} {
		mirror := filepath.Join(contractDir, pd.name, "zz_contracts_verif.go")
		data, err := os.ReadFile(mirror)
		if err != nil {
			continue
		}
		dst := filepath.Join(repoDir, pd.dir, "zz_contracts_verif.go")
		old, _ := os.ReadFile(dst)
		if string(old) != string(data) {
			os.WriteFile(dst, data, 0644)
			fmt.Println("synced", dst)
		}
	}
}

// candidateModel drops all quantified facts and asks for a model: a debugging aid (the model may violate the dropped facts).
func candidateModel(sc *Script, ob *Obligation) string {
	var b strings.Builder
	b.WriteString("(set-option :produce-models true)\n")
	for _, d := range sc.decls[:ob.NDecls] {
		b.WriteString(d + "\n")
	}
	for _, f := range sc.facts[:ob.NFacts] {
		if strings.Contains(f, "(forall ") || strings.Contains(f, "(exists ") {
			continue
		}
		b.WriteString("(assert " + f + ")\n")
	}
	b.WriteString("(assert " + ob.Guard + ")\n(assert (not " + ob.Goal + "))\n(check-sat)\n(get-model)\n")
	dir, _ := os.MkdirTemp("", "govc-cand-")
	defer os.RemoveAll(dir)
	st, out, _ := runSolver(context.Background(), solvers[0], b.String(), 20, dir)
	if st != "sat" {
		return st
	}
	return strings.Join(modelLines(out), "; ")
}
