package main

import (
	"fmt"
	"go/types"
	"strings"

	"golang.org/x/tools/go/ssa"
)

// modInfo describes how a function may affect a heap variable.
type modInfo struct {
	sort    string // SMT sort of the heap variable; "" for frame-local cells
	mutates bool   // false: only freshly allocated objects are written (allocation effect)
}

func addMod(out map[string]modInfo, name, sort string, mutates bool) {
	if cur, ok := out[name]; ok {
		cur.mutates = cur.mutates || mutates
		if cur.sort == "" {
			cur.sort = sort
		}
		out[name] = cur
		return
	}
	out[name] = modInfo{sort: sort, mutates: mutates}
}

func (g *Global) addLeafMods(out map[string]modInfo, kind LocKind, prefix string, t types.Type, mutates bool) {
	k := kindOf(t)
	if k == kStruct && kind != LElem {
		st := t.Underlying().(*types.Struct)
		for i := 0; i < st.NumFields(); i++ {
			f := st.Field(i)
			if g.ignoredField(t, f) {
				continue
			}
			g.addLeafMods(out, LField, fieldPrefix(t, f.Name()), f.Type(), mutates)
		}
		return
	}
	if k == kArray && kind != LElem {
		at := t.Underlying().(*types.Array)
		g.addLeafMods(out, LElem, elemPrefix(at.Elem()), at.Elem(), mutates)
		return
	}
	for _, lf := range g.leavesOfT(t) {
		if kind == LElem {
			addMod(out, prefix+lf.suffix, arr2(lf.sort), mutates)
		} else {
			addMod(out, prefix+lf.suffix, arr1(lf.sort), mutates)
		}
	}
	g.noteKinds(prefix, t)
}

// noteKinds records what the cells of a heap variable hold (derived from the static type), independent of access order.
func (g *Global) noteKinds(prefix string, t types.Type) {
	if g.heapKinds == nil {
		g.heapKinds = map[string]string{}
	}
	switch kindOf(t) {
	case kInt:
		if _, done := g.heapKinds[prefix]; done {
			return
		}
		if lo, hi, ok := intRange(t); ok {
			g.heapKinds[prefix] = "int:" + lo + ":" + hi
		} else if isString(t) {
			g.heapKinds[prefix] = "nonneg"
		} else {
			g.heapKinds[prefix] = "ref"
		}
	case kSlice:
		g.heapKinds[prefix+"#arr"] = "ref"
		g.heapKinds[prefix+"#off"] = "nonneg"
		g.heapKinds[prefix+"#len"] = "int:0:2147483648"
		g.heapKinds[prefix+"#cap"] = "int:0:2147483648"
	case kIface:
		g.heapKinds[prefix+"#tag"] = "nonneg"
	case kStruct:
		if st, ok := t.Underlying().(*types.Struct); ok {
			for i := 0; i < st.NumFields(); i++ {
				if !g.ignoredField(t, st.Field(i)) {
					g.noteKinds(prefix+"."+st.Field(i).Name(), st.Field(i).Type())
				}
			}
		}
	}
}

func (g *Global) addMapMods(out map[string]modInfo, mt *types.Map, mutates bool) {
	p := mapPrefix(mt)
	addMod(out, p+"#dom", arr2(sortBool), mutates)
	addMod(out, p+"#len", arr1(sortInt), mutates)
	for _, lf := range g.leavesOfT(mt.Elem()) {
		addMod(out, p+"#val"+lf.suffix, arr2(lf.sort), mutates)
	}
	g.noteKinds(p+"#val", mt.Elem())
}

// isFreshBase: the address is derived from an allocation made in the same function (through field/element addressing,
// reslicing, and phis all of whose inputs are).
func isFreshBase(v ssa.Value) bool {
	return freshBase(v, map[ssa.Value]bool{})
}

// freshScope restricts what counts as "allocated here": nil = anywhere in the function (the view of a caller, for whom
// every object the function allocates is new); for the effect of a LOOP it is the set of blocks of the loop body, because
// an object allocated before the loop exists when the loop is entered and a store to it inside the loop is a mutation of a
// pre-existing object as far as the loop's frame is concerned.
var freshScope map[*ssa.BasicBlock]bool
var freshScopeFn *ssa.Function

func inFreshScope(in ssa.Instruction) bool {
	// allocations of other functions (callees analysed on the way) follow the ordinary rule
	return freshScope == nil || in.Parent() != freshScopeFn || freshScope[in.Block()]
}

func freshBase(v ssa.Value, seen map[ssa.Value]bool) bool {
	for {
		switch x := v.(type) {
		case *ssa.Alloc:
			return inFreshScope(x)
		case *ssa.MakeSlice:
			return inFreshScope(x)
		case *ssa.MakeMap:
			return inFreshScope(x)
		case *ssa.FieldAddr:
			v = x.X
		case *ssa.IndexAddr:
			v = x.X
		case *ssa.Slice:
			v = x.X
		case *ssa.Phi:
			if seen[x] {
				return true // cycle through the phi itself: decided by the other inputs
			}
			seen[x] = true
			for _, e := range x.Edges {
				if !freshBase(e, seen) {
					return false
				}
			}
			return true
		default:
			return false
		}
	}
}

// addrMods records the heap names written by a store of a value of type t through address addr.
func (g *Global) addrMods(out map[string]modInfo, addr ssa.Value, t types.Type, resolveLocal func(ssa.Value) (string, bool)) {
	mut := !isFreshBase(addr)
	switch a := addr.(type) {
	case *ssa.FieldAddr:
		pt := a.X.Type().Underlying().(*types.Pointer).Elem()
		f := pt.Underlying().(*types.Struct).Field(a.Field)
		g.addLeafMods(out, LField, fieldPrefix(pt, f.Name()), t, mut)
	case *ssa.IndexAddr:
		var et types.Type
		switch u := a.X.Type().Underlying().(type) {
		case *types.Slice:
			et = u.Elem()
		case *types.Pointer:
			et = u.Elem().Underlying().(*types.Array).Elem()
		}
		g.addLeafMods(out, LElem, elemPrefix(et), t, mut)
	case *ssa.Global:
		addMod(out, "G$"+a.Pkg.Pkg.Name()+"."+a.Name(), "", true)
	default:
		if resolveLocal != nil {
			if name, ok := resolveLocal(addr); ok {
				if name != "" {
					addMod(out, name, "", true)
				}
				return
			}
		}
		if al, ok := addr.(*ssa.Alloc); ok && allocIsLocal(al) {
			k := kindOf(t)
			if k != kStruct && k != kArray {
				return // frame-local cell of another frame: invisible to callers
			}
		}
		if _, ok := addr.(*ssa.FreeVar); ok {
			// captured variable: resolved by the caller if it is a frame-local cell
			addMod(out, "FREEVAR:"+addr.Name(), "", true)
			k := kindOf(t)
			if k != kStruct && k != kArray {
				return
			}
		}
		k := kindOf(t)
		if k == kStruct || k == kArray {
			g.addLeafMods(out, LCell, "", t, mut)
		} else {
			g.addLeafMods(out, LCell, cellPrefix(t), t, mut)
		}
	}
}

func (g *Global) instrMods(out map[string]modInfo, in ssa.Instruction, resolveLocal func(ssa.Value) (string, bool), closureOf func(ssa.Value) *ssa.Function) {
	switch x := in.(type) {
	case *ssa.Store:
		pt := x.Addr.Type().Underlying().(*types.Pointer).Elem()
		g.addrMods(out, x.Addr, pt, resolveLocal)
	case *ssa.MapUpdate:
		g.addMapMods(out, x.Map.Type().Underlying().(*types.Map), !isFreshBase(x.Map))
	case *ssa.Alloc:
		t := x.Type().Underlying().(*types.Pointer).Elem()
		k := kindOf(t)
		if k == kStruct || k == kArray {
			g.addLeafMods(out, LCell, "", t, false)
		} else if !allocIsLocal(x) {
			g.addLeafMods(out, LCell, cellPrefix(t), t, false)
		}
	case *ssa.MakeSlice:
		et := x.Type().Underlying().(*types.Slice).Elem()
		g.addLeafMods(out, LElem, elemPrefix(et), et, false)
	case *ssa.MakeMap:
		g.addMapMods(out, x.Type().Underlying().(*types.Map), false)
	case *ssa.Call:
		g.callMods(out, &x.Call, closureOf)
	case *ssa.Defer:
		g.callMods(out, &x.Call, closureOf)
	case *ssa.Convert:
		// string->[]byte allocates
	}
}

func (g *Global) callMods(out map[string]modInfo, c *ssa.CallCommon, closureOf func(ssa.Value) *ssa.Function) {
	if c.IsInvoke() {
		ikey := typeKey(c.Value.Type()) + "." + c.Method.Name()
		if fc := g.contracts.Funcs[ikey]; fc != nil {
			for n, mi := range g.modsetFor(ikey, fc, nil) {
				addMod(out, n, mi.sort, mi.mutates)
			}
		}
		return
	}
	switch f := c.Value.(type) {
	case *ssa.Builtin:
		switch f.Name() {
		case "append":
			et := c.Args[0].Type().Underlying().(*types.Slice).Elem()
			g.addLeafMods(out, LElem, elemPrefix(et), et, true)
		case "copy":
			et := c.Args[0].Type().Underlying().(*types.Slice).Elem()
			g.addLeafMods(out, LElem, elemPrefix(et), et, !isFreshBase(c.Args[0]))
		case "delete", "clear":
			if mt, ok := c.Args[0].Type().Underlying().(*types.Map); ok {
				g.addMapMods(out, mt, true)
			}
		}
	case *ssa.Function:
		if g.funcKey(f) == "proto.Clone" && len(c.Args) == 1 {
			if mk, ok := c.Args[0].(*ssa.MakeInterface); ok {
				if pt, ok := mk.X.Type().Underlying().(*types.Pointer); ok {
					// allocation-only effect on the heaps of the message types reachable from the cloned message
					g.cloneMods(out, pt.Elem(), map[string]bool{})
					return
				}
			}
		}
		if strings.HasPrefix(g.funcKey(f), "slices.Sort") && len(c.Args) >= 1 && isFreshBase(c.Args[0]) {
			// sorting a slice of an array allocated by this very function: allocation-only effect for the callers
			for n, mi := range g.modsetOfFunc(f) {
				addMod(out, n, mi.sort, false)
			}
			return
		}
		for n, mi := range g.downgradeByFrames(g.funcKey(f), g.modsetOfFunc(f)) {
			addMod(out, n, mi.sort, mi.mutates)
		}
	case *ssa.MakeClosure:
		for n, mi := range g.modsetOfFunc(f.Fn.(*ssa.Function)) {
			addMod(out, n, mi.sort, mi.mutates)
		}
	default:
		if closureOf != nil {
			if fn := closureOf(c.Value); fn != nil {
				for n, mi := range g.modsetOfFunc(fn) {
					addMod(out, n, mi.sort, mi.mutates)
				}
				return
			}
		}
		// unknown function value: handled (or rejected) at translation time
	}
}

// downgradeByFrames: a frame clause without objects ("frame T:" / "frame elems T:") is a verified (or, for trusted
// functions, assumed and listed) promise that no pre-existing object of that heap is written; callers, direct and
// transitive, may therefore treat the effect on those heaps as allocation-only.
func (g *Global) downgradeByFrames(key string, ms map[string]modInfo) map[string]modInfo {
	fc := g.contracts.Funcs[key]
	if fc == nil || len(fc.Frames) == 0 || len(ms) == 0 {
		return ms
	}
	var out map[string]modInfo
	for _, fcl := range fc.Frames {
		if len(fcl.Exprs) != 0 {
			continue
		}
		prefix := "F$" + fcl.TypeKey + "."
		if fcl.Elems {
			prefix = "E$" + fcl.TypeKey
		}
		for n, mi := range ms {
			if !mi.mutates {
				continue
			}
			if fcl.Elems {
				if n != prefix && !strings.HasPrefix(n, prefix+".") && !strings.HasPrefix(n, prefix+"#") {
					continue
				}
			} else if !strings.HasPrefix(n, prefix) {
				continue
			}
			if out == nil {
				out = make(map[string]modInfo, len(ms))
				for k, v := range ms {
					out[k] = v
				}
			}
			mi.mutates = false
			out[n] = mi
		}
	}
	if out == nil {
		return ms
	}
	return out
}

// modsetOfFunc: heap names a function may write (transitively), by contract if trusted/external.
func (g *Global) modsetOfFunc(f *ssa.Function) map[string]modInfo {
	key := g.funcKey(f)
	if _, isLib := libNoEffect[key]; isLib && key != "proto.Clone" {
		return nil
	}
	if key == "proto.Clone" {
		// allocation-only: every raftpb message field heap may receive fresh objects
		out := map[string]modInfo{}
		for n, srt := range g.heapRegistry() {
			if strings.HasPrefix(n, "F$raftpb.") || strings.HasPrefix(n, "C$") || strings.HasPrefix(n, "E$uint8") || strings.HasPrefix(n, "E$uint64") || strings.HasPrefix(n, "E$*raftpb.") {
				out[n] = modInfo{sort: srt, mutates: false}
			}
		}
		return out
	}
	if key == "binary.littleEndian.PutUint64" {
		out := map[string]modInfo{}
		g.addLeafMods(out, LElem, "E$uint8", types.Typ[types.Uint8], true)
		return out
	}
	if key == "slices.Sort" {
		out := map[string]modInfo{}
		et := f.Signature.Params().At(0).Type().Underlying().(*types.Slice).Elem()
		g.addLeafMods(out, LElem, elemPrefix(et), et, true)
		return out
	}
	fc := g.contracts.Funcs[key]
	if fc != nil && (fc.Trusted || len(f.Blocks) == 0) {
		if g.trustedEffects == nil {
			g.trustedEffects = map[string]bool{}
		}
		g.trustedEffects[key] = true
		return g.modsetFor(key, fc, f)
	}
	if ms, ok := g.modsets[f]; ok {
		return ms
	}
	if g.modDepth > 0 {
		return g.computeMods(f)
	}
	// fixpoint driver for (mutually) recursive functions: every function is analysed once per round against the
	// provisional sets of the previous round, until nothing grows; then all provisional sets are final
	for round := 0; round < 50; round++ {
		g.modRoundSeen = map[*ssa.Function]bool{}
		g.modChanged = false
		g.modDepth++
		g.computeMods(f)
		g.modDepth--
		if !g.modChanged {
			break
		}
	}
	for fn, ms := range g.modProv {
		g.modsets[fn] = ms
	}
	g.modProv = map[*ssa.Function]map[string]modInfo{}
	return g.modsets[f]
}

func (g *Global) computeMods(f *ssa.Function) map[string]modInfo {
	if g.modProv == nil {
		g.modProv = map[*ssa.Function]map[string]modInfo{}
	}
	if g.modRoundSeen[f] {
		return g.modProv[f]
	}
	g.modRoundSeen[f] = true
	out := map[string]modInfo{}
	for _, b := range f.Blocks {
		if b == f.Recover {
			continue
		}
		for _, in := range b.Instrs {
			g.instrMods(out, in, nil, nil)
		}
	}
	// closures defined inside write through free variables: their heap effects are already included via MakeClosure calls;
	// include effects of anonymous functions that are passed elsewhere (callbacks)
	for _, af := range f.AnonFuncs {
		for n, mi := range g.modsetOfFunc(af) {
			if !strings.HasPrefix(n, "FREEVAR:") {
				addMod(out, n, mi.sort, mi.mutates)
			}
		}
	}
	prev := g.modProv[f]
	same := len(prev) == len(out)
	if same {
		for n, mi := range out {
			if pm, ok := prev[n]; !ok || pm != mi {
				same = false
				break
			}
		}
	}
	if !same {
		g.modChanged = true
		g.modProv[f] = out
	}
	return out
}

// modsetFor: the mod-set used at call sites of a function with a contract.
func (g *Global) modsetFor(key string, fc *FuncContract, f *ssa.Function) map[string]modInfo {
	if fc != nil && fc.Pure {
		return nil
	}
	if f != nil && len(f.Blocks) > 0 && (fc == nil || !fc.Trusted) {
		ms := g.modsetOfFunc(f)
		out := map[string]modInfo{}
		for n, mi := range ms {
			if strings.HasPrefix(n, "FREEVAR:") || mi.sort == "" && !strings.HasPrefix(n, "G$") {
				continue
			}
			out[n] = mi
		}
		return out
	}
	out := map[string]modInfo{}
	if fc != nil {
		reg := g.heapRegistry()
		for _, m := range fc.Modifies {
			alloc := false
			if strings.HasPrefix(m, "alloc ") {
				alloc = true
				m = strings.TrimSpace(strings.TrimPrefix(m, "alloc "))
			}
			found := false
			for n, s := range reg {
				if n == m || strings.HasPrefix(n, m+"#") || strings.HasPrefix(n, m+".") {
					addMod(out, n, s, !alloc)
					found = true
				}
			}
			if !found {
				panic(subsetErr(fmt.Sprintf("contract of %s: unknown heap name %q in modifies", key, m)))
			}
		}
	}
	return out
}

var heapReg map[string]string

// heapRegistry lists every heap variable name (with sort) that the repository's code can touch.
func (g *Global) heapRegistry() map[string]string {
	if heapReg != nil {
		return heapReg
	}
	heapReg = map[string]string{}
	all := map[string]modInfo{}
	for _, sp := range g.spkgs {
		for _, m := range sp.Members {
			switch x := m.(type) {
			case *ssa.Function:
				g.scanAll(all, x)
			case *ssa.Type:
				for _, t := range []types.Type{x.Type(), types.NewPointer(x.Type())} {
					ms := g.prog.MethodSets.MethodSet(t)
					for i := 0; i < ms.Len(); i++ {
						if f := g.prog.MethodValue(ms.At(i)); f != nil {
							g.scanAll(all, f)
						}
					}
				}
				// all fields of all struct types
				if _, ok := x.Type().Underlying().(*types.Struct); ok {
					g.addLeafMods(all, LCell, "", x.Type(), true)
				}
			}
		}
	}
	for n, mi := range all {
		if mi.sort != "" {
			heapReg[n] = mi.sort
		}
	}
	return heapReg
}

func (g *Global) scanAll(out map[string]modInfo, f *ssa.Function) {
	for _, b := range f.Blocks {
		for _, in := range b.Instrs {
			func() {
				defer func() { recover() }()
				switch c := in.(type) {
				case *ssa.Call:
					if _, isB := c.Call.Value.(*ssa.Builtin); !isB {
						return // every function is scanned itself: no need to follow calls
					}
				case *ssa.Defer:
					return
				}
				g.instrMods(out, in, nil, nil)
			}()
		}
	}
	for _, af := range f.AnonFuncs {
		g.scanAll(out, af)
	}
}

// loopMods: names modified in a loop body, resolved in the context of a frame.
func (tr *Tr) loopMods(fr *Frame, li *loopInfo) map[string]modInfo {
	out := map[string]modInfo{}
	resolveLocal := func(v ssa.Value) (string, bool) {
		switch a := v.(type) {
		case *ssa.Alloc:
			if n, ok := fr.localVar[a]; ok {
				return n, true
			}
			if allocIsLocal(a) {
				k := kindOf(a.Type().Underlying().(*types.Pointer).Elem())
				if k != kStruct && k != kArray {
					// allocated inside the loop: fresh each iteration
					return "", true
				}
			}
		case *ssa.FreeVar:
			if lv, ok := fr.vals[a].(LocV); ok && lv.L.Kind == LVar {
				return lv.L.Prefix, true
			}
		}
		return "", false
	}
	closureOf := func(v ssa.Value) *ssa.Function {
		if fv, ok := fr.vals[v].(*FnV); ok {
			return fv.Fn
		}
		return nil
	}
	freshScope, freshScopeFn = li.body, li.header.Parent()
	defer func() { freshScope, freshScopeFn = nil, nil }()
	for b := range li.body {
		for _, in := range b.Instrs {
			tr.g.instrMods(out, in, resolveLocal, closureOf)
			if nx, ok := in.(*ssa.Next); ok {
				if e := fr.iters[nx.Iter]; e != nil {
					addMod(out, e.counter, "", true)
				}
			}
			// a callback invocation inside an iterating function: arbitrary effects, and the invocation log grows
			if c, ok := in.(*ssa.Call); ok && tr.cbParam != nil && c.Call.Value == tr.cbParam {
				for n, srt := range tr.g.heapRegistry() {
					addMod(out, n, srt, true)
				}
				addMod(out, cbN, "", true)
				addMod(out, cbID, "(Array Int Int)", true)
			}
			// closures invoked in the loop may write captured frame-local cells
			if c, ok := in.(*ssa.Call); ok {
				var fv *FnV
				switch f := c.Call.Value.(type) {
				case *ssa.MakeClosure:
					fv, _ = fr.vals[f].(*FnV)
				default:
					fv, _ = fr.vals[c.Call.Value].(*FnV)
				}
				if fv != nil {
					for n := range tr.g.modsetOfFunc(fv.Fn) {
						if strings.HasPrefix(n, "FREEVAR:") {
							name := strings.TrimPrefix(n, "FREEVAR:")
							for i, v := range fv.Fn.FreeVars {
								if v.Name() == name {
									if lv, ok := fv.Bind[i].(LocV); ok && lv.L.Kind == LVar {
										addMod(out, lv.L.Prefix, "", true)
									}
								}
							}
						}
					}
				}
			}
		}
	}
	for n := range out {
		if strings.HasPrefix(n, "FREEVAR:") {
			delete(out, n)
		}
	}
	return out
}

// cloneMods: heap variables that receive fresh objects when a message of struct type t is deep-copied.
func (g *Global) cloneMods(out map[string]modInfo, t types.Type, seen map[string]bool) {
	k := typeKey(t)
	if seen[k] {
		return
	}
	seen[k] = true
	st, ok := t.Underlying().(*types.Struct)
	if !ok {
		return
	}
	for i := 0; i < st.NumFields(); i++ {
		f := st.Field(i)
		if g.ignoredField(t, f) {
			continue
		}
		g.addLeafMods(out, LField, fieldPrefix(t, f.Name()), f.Type(), false)
		switch ft := f.Type().Underlying().(type) {
		case *types.Pointer:
			if _, isStruct := ft.Elem().Underlying().(*types.Struct); isStruct {
				g.cloneMods(out, ft.Elem(), seen)
			} else {
				g.addLeafMods(out, LCell, cellPrefix(ft.Elem()), ft.Elem(), false)
			}
		case *types.Slice:
			g.addLeafMods(out, LElem, elemPrefix(ft.Elem()), ft.Elem(), false)
			if pt, ok := ft.Elem().Underlying().(*types.Pointer); ok {
				g.cloneMods(out, pt.Elem(), seen)
			}
		}
	}
}
