package main

import (
	"context"
	"crypto/sha256"
	"encoding/json"
	"flag"
	"fmt"
	"golang.org/x/tools/go/ssa"
	"os"
	"path/filepath"
	"sort"
	"strconv"
	"strings"
	"sync"
	"time"
)

// propInfo: claimed level and the honest description of what the obligations decide.
type propInfo struct {
	Level       string
	Explanation string
	NotMech     string
}

type knownFinding struct {
	Property   string `json:"property"`
	Obligation string `json:"obligation"`
	What       string `json:"what"`
	Status     string `json:"status"` // known | fixed
	Commit     string `json:"commit,omitempty"`
}

func loadKnownFindings() []knownFinding {
	var kf struct {
		Findings []knownFinding `json:"findings"`
	}
	data, err := os.ReadFile(filepath.Join(verifDir, "known_findings.json"))
	if err != nil {
		return nil
	}
	json.Unmarshal(data, &kf)
	return kf.Findings
}

func clauseHasProp(cs []*Clause, p string) bool {
	for _, c := range cs {
		for _, q := range c.Props {
			if q == p {
				return true
			}
		}
	}
	return false
}

func contains(xs []string, x string) bool {
	for _, y := range xs {
		if y == x {
			return true
		}
	}
	return false
}

// funcsForProp: functions whose contract mentions the property (function-level tag or any clause tag).
func (g *Global) funcsForProp(p string) []string {
	var out []string
	for _, k := range g.sortedContractKeys() {
		fc := g.contracts.Funcs[k]
		if fc.Trusted {
			continue
		}
		hit := contains(fc.Props, p) || clauseHasProp(fc.Requires, p) || clauseHasProp(fc.Ensures, p)
		for _, lc := range fc.Loops {
			hit = hit || clauseHasProp(lc.Invariants, p)
		}
		if hit {
			out = append(out, k)
		}
	}
	for _, n := range sortedKeys(g.contracts.Lemmas) {
		if contains(g.contracts.Lemmas[n].Props, p) {
			out = append(out, "lemma."+n)
		}
	}
	if len(out) > 0 {
		// stability lemmas of opaque specs are cheap and may be relied upon by any function: always included
		for _, n := range sortedKeys(g.contracts.Specs) {
			if g.contracts.Specs[n].Opaque {
				out = append(out, "stable."+n)
			}
		}
	}
	return out
}

// calleeClosure extends a list of contract keys by every function under a (non-trusted, non-inline) contract that the
// listed functions can reach through static calls, closures and inlined helpers: the thorough tier re-verifies
// everything a property's functions lean on, not only the functions tagged with the property.
func (g *Global) calleeClosure(keys []string) []string {
	have := map[string]bool{}
	for _, k := range keys {
		have[k] = true
	}
	seenFn := map[*ssa.Function]bool{}
	var extra []string
	var visit func(f *ssa.Function)
	visit = func(f *ssa.Function) {
		if f == nil || seenFn[f] {
			return
		}
		seenFn[f] = true
		for _, af := range f.AnonFuncs {
			visit(af)
		}
		for _, b := range f.Blocks {
			for _, in := range b.Instrs {
				var cc *ssa.CallCommon
				switch x := in.(type) {
				case *ssa.Call:
					cc = &x.Call
				case *ssa.Defer:
					cc = &x.Call
				case *ssa.Go:
					cc = &x.Call
				}
				if cc == nil {
					continue
				}
				callee := cc.StaticCallee()
				if callee == nil {
					continue
				}
				if callee.Origin() != nil {
					callee = callee.Origin()
				}
				k := g.funcKey(callee)
				if fc := g.contracts.Funcs[k]; fc != nil && !fc.Trusted && !fc.Inline && g.funcs[k] != nil && len(callee.Blocks) > 0 {
					if !have[k] {
						have[k] = true
						extra = append(extra, k)
					}
				}
				if len(callee.Blocks) > 0 && g.funcs[g.funcKey(callee)] != nil {
					visit(callee)
				}
			}
		}
	}
	for _, k := range keys {
		visit(g.funcs[k])
	}
	sort.Strings(extra)
	return append(append([]string(nil), keys...), extra...)
}

type replayFile struct {
	Property   string   `json:"property"`
	Obligation string   `json:"obligation"`
	Kind       string   `json:"kind"`
	Function   string   `json:"function"`
	Position   string   `json:"position"`
	Clause     string   `json:"clause"`
	Status     string   `json:"solver_status"`
	Solver     string   `json:"solver"`
	Output     string   `json:"solver_output"`
	Model      []string `json:"model,omitempty"`
	Replayed   bool     `json:"replayed"`
	ReplayNote string   `json:"replay_note"`
	ReplayCmd  string   `json:"replay_cmd,omitempty"`
	SMTFile    string   `json:"smt_file,omitempty"`
}

func safeName(s string) string {
	return strings.Map(func(r rune) rune {
		switch {
		case r >= 'a' && r <= 'z', r >= 'A' && r <= 'Z', r >= '0' && r <= '9', r == '.', r == '-', r == '_':
			return r
		}
		return '_'
	}, s)
}

func cmdCheck(args []string) {
	fs := flag.NewFlagSet("check", flag.ExitOnError)
	prop := fs.String("prop", "", "property id")
	tier := fs.String("tier", "", "quick|thorough")
	fs.Parse(args)
	if *tier == "" {
		*tier = os.Getenv("VERIF_TIER")
	}
	if *tier == "" {
		*tier = "quick"
	}
	seed := 0
	if s := os.Getenv("VERIF_SEED"); s != "" {
		seed, _ = strconv.Atoi(s)
	}
	if r := os.Getenv("GOVC_REPO"); r != "" {
		repoDir = r
	}
	info, ok := propTable[*prop]
	if !ok {
		fmt.Fprintf(os.Stderr, "unknown or unclaimed property %q\n", *prop)
		os.Exit(2)
	}
	t0 := time.Now()
	initAnswerCache()
	g := mustLoad()
	keys := g.funcsForProp(*prop)
	tagged := len(keys)
	timeout := 90
	if *tier == "thorough" {
		timeout = 200
		keys = g.calleeClosure(keys)
	}
	type fres struct {
		key string
		res *FuncResult
	}
	var results []fres
	var jobs []job
	var canaries []job
	genFailures := map[string]string{}
	for _, k := range keys {
		var res *FuncResult
		if strings.HasPrefix(k, "lemma.") {
			res = g.verifyLemma(strings.TrimPrefix(k, "lemma."))
		} else if strings.HasPrefix(k, "stable.") {
			res = g.verifyStable(strings.TrimPrefix(k, "stable."))
		} else {
			res = g.verifyFunc(k)
		}
		results = append(results, fres{k, res})
		if res.Err != nil {
			genFailures[k] = res.Err.Error()
		}
		if res.Tr == nil {
			continue
		}
		for _, ob := range res.Tr.sc.obls {
			jobs = append(jobs, job{res.Tr.sc, ob})
		}
		// vacuity canary: "false" at the end of the function's fact list must not be provable
		if res.Err == nil {
			sc := res.Tr.sc
			cn := &Obligation{ID: k + "#canary", Kind: "canary", Guard: "true", Goal: "false", NFacts: len(sc.facts), NDecls: len(sc.decls), Func: k}
			canaries = append(canaries, job{sc, cn})
		}
	}
	dischargeAll(jobs, timeout, 12, false)
	// thorough: every obligation a solver discharged is handed to the other solvers as well (short limit). Agreement is
	// counted; an obligation one solver proves and another refutes with a model is reported, not believed.
	crossConfirmed, crossUndecided, crossSkipped := 0, 0, 0
	var crossDisagree []*Obligation
	if *tier == "thorough" {
		crossConfirmed, crossUndecided, crossSkipped, crossDisagree = crossCheck(jobs, 10, 12, 300*time.Second)
	}
	ctime := 2
	if *tier == "thorough" {
		ctime = 5
	}
	dischargeCanaries(canaries, ctime)

	known := loadKnownFindings()
	total, discharged, reused := 0, 0, 0
	byBackend := map[string]int{}
	var solverTime, maxTime float64
	type slow struct {
		id string
		t  float64
	}
	var slows []slow
	var failed []*Obligation
	var samples []map[string]any
	assumptions := map[string]bool{}
	funcsUnder := []string{}
	for _, fr := range results {
		funcsUnder = append(funcsUnder, fr.key)
		if fr.res.Tr == nil {
			continue
		}
		for a := range fr.res.Tr.assumptions {
			assumptions[a] = true
		}
		for _, ob := range fr.res.Tr.sc.obls {
			total++
			solverTime += ob.TimeS
			if ob.TimeS > maxTime {
				maxTime = ob.TimeS
			}
			slows = append(slows, slow{ob.ID, ob.TimeS})
			if ob.Status == "unsat" {
				discharged++
				if ob.Cached {
					reused++
				}
				byBackend[ob.Solver]++
				if len(samples) < 6 && ob.Solver != "trivial" && (ob.Kind == "post" || ob.Kind == "inv-pres") {
					samples = append(samples, map[string]any{"obligation": ob.ID, "kind": ob.Kind, "clause": ob.Desc, "position": ob.Pos, "smt_bytes": ob.Bytes, "solver": ob.Solver, "time_s": round3(ob.TimeS)})
				}
			} else {
				failed = append(failed, ob)
			}
		}
	}
	sort.Slice(slows, func(i, j int) bool { return slows[i].t > slows[j].t })
	var slowest []map[string]any
	for i := 0; i < len(slows) && i < 5; i++ {
		slowest = append(slowest, map[string]any{"obligation": slows[i].id, "time_s": round3(slows[i].t)})
	}
	// report
	violations := 0
	var knownHit []string
	replayDir := filepath.Join(verifDir, "replays", *prop)
	report := func(id, kind, fn, pos, clause, status, solver, output, model string, sc *Script, ob *Obligation) {
		for _, kf := range known {
			if kf.Property == *prop && kf.Obligation == id && kf.Status == "known" {
				fmt.Printf("KNOWN-FINDING: property=%s %s %s\n", *prop, id, kf.What)
				knownHit = append(knownHit, id)
				return
			}
		}
		violations++
		os.MkdirAll(replayDir, 0755)
		path := filepath.Join(replayDir, safeName(id)+".json")
		rf := replayFile{Property: *prop, Obligation: id, Kind: kind, Function: fn, Position: pos, Clause: clause, Status: status, Solver: solver, Output: output}
		if model != "" {
			rf.Model = modelLines(model)
		}
		suffix := " no-failing-input-found"
		if sc != nil && ob != nil {
			smt := filepath.Join(replayDir, safeName(id)+".smt2")
			os.WriteFile(smt, []byte(sc.render(ob, "", true)), 0644)
			rf.SMTFile = smt
			if status == "sat" {
				replayed, note, cmd := tryReplay(g, *prop, ob, model, replayDir)
				rf.Replayed, rf.ReplayNote, rf.ReplayCmd = replayed, note, cmd
				if replayed {
					suffix = ""
				}
			} else {
				rf.ReplayNote = "solver returned " + status + ": no model; the obligation is reported as undischarged"
			}
		} else {
			rf.ReplayNote = "obligation could not be generated from the current source"
		}
		data, _ := json.MarshalIndent(rf, "", " ")
		os.WriteFile(path, data, 0644)
		fmt.Printf("VIOLATION property=%s replay=%s%s\n", *prop, path, suffix)
		fmt.Printf("  obligation %s [%s] at %s: %s\n", id, status, pos, clause)
	}
	for _, k := range sortedKeys(genFailures) {
		report(k+"#generate", "not-generated", k, "", genFailures[k], "not-generated", "", genFailures[k], "", nil, nil)
		total++
	}
	scOf := map[*Obligation]*Script{}
	for _, j := range jobs {
		scOf[j.ob] = j.sc
	}
	for _, ob := range failed {
		report(ob.ID, ob.Kind, ob.Func, ob.Pos, ob.Desc, ob.Status, ob.Solver, ob.Output, ob.Model, scOf[ob], ob)
	}
	for _, ob := range crossDisagree {
		report(ob.ID, ob.Kind, ob.Func, ob.Pos, ob.Desc, "solver-disagreement", ob.Solver, ob.Output, ob.Model, scOf[ob], ob)
	}
	canaryRefuted, canaryVacuous := 0, 0
	for _, c := range canaries {
		if c.ob.Status == "unsat" {
			canaryVacuous++
			report(c.ob.ID, "canary", c.ob.Func, "", "vacuity canary: `false` is provable from the assumptions of "+c.ob.Func+" (contradictory precondition/axioms)", "vacuous", c.ob.Solver, c.ob.Output, "", nil, nil)
		} else {
			canaryRefuted++
		}
	}
	if total == 0 {
		fmt.Printf("VIOLATION property=%s replay=%s no-failing-input-found\n  no obligations were generated\n", *prop, filepath.Join(replayDir, "none"))
		violations++
	}
	// evidence
	var asm []string
	for a := range assumptions {
		asm = append(asm, a)
	}
	for k := range g.trustedEffects {
		if !assumptions["trusted contract: "+k] {
			asm = append(asm, "trusted contract (declared write effects only, used by the effect analysis of callers): "+k)
		}
	}
	sort.Strings(asm)
	asm = append(asm, "T-engine: govc SSA->SMT semantics (DESIGN §2), go/ssa of x/tools v0.50.0, SMT solvers z3 5.1.0 / z3 4.8.12 / cvc5 1.0.3",
		"A-arith: slice windows and map sizes <= 2^31 elements; other machine arithmetic is modelled exactly (wrap-around)",
		"single-threaded execution; logging/formatting calls abstracted to no-ops (DESIGN §2.9)")
	if info.NotMech != "" {
		asm = append(asm, "not mechanised: "+info.NotMech)
	}
	census := sha256.New()
	for _, j := range jobs {
		census.Write([]byte(j.ob.ID + "\n"))
	}
	cov := map[string]any{
		"obligations":              total,
		"discharged":               discharged,
		"checker_cmd":              fmt.Sprintf("/verif/bin/govc check --prop %s --tier %s", *prop, *tier),
		"trusted_base":             asm,
		"explanation":              info.Explanation,
		"functions_under_contract": funcsUnder,
		"by_backend":               byBackend,
		"solver_time_s":            map[string]any{"sum": round3(solverTime), "max": round3(maxTime), "slowest": slowest},
		"samples":                  samples,
		"canaries_refuted":         canaryRefuted,
		"canaries_vacuous":         canaryVacuous,
		"census_hash":              fmt.Sprintf("%x", census.Sum(nil))[:16],
		"known_findings_hit":       knownHit,
		"evaluations":              total,
		"distinct_nontrivial":      discharged - byBackend["trivial"],
		"rule":                     "one evaluation = one verification condition generated from /repo's current SSA and discharged by an SMT solver; non-trivial = needed a solver call (not syntactically true)",
		"not_mechanised":           info.NotMech,
		"answers_reused":           reused,
		"answers_reused_rule":      "an unsat answer is remembered under the SHA-256 of the complete SMT script (generated afresh from /repo's current tree on every run); an obligation whose script is byte-identical to one already proved (typically: the same function checked for another property) reuses that answer instead of calling the solver again; failures are never remembered; VERIF_NO_CACHE=1 turns this off",
	}
	if *tier == "thorough" {
		cov["functions_tagged_with_property"] = tagged
		cov["functions_added_by_callee_closure"] = len(keys) - tagged
		cov["cross_check"] = map[string]any{"confirmed_by_a_second_solver": crossConfirmed, "second_solver_undecided_in_10s": crossUndecided, "not_cross_checked_budget_exhausted": crossSkipped, "disagreements": len(crossDisagree),
			"rule": "obligations discharged by one solver are re-run on the other installed solvers (10 s each) within a budget of 5 minutes per property; a model from another solver is reported as a violation"}
	}
	ev := map[string]any{
		"property_id": *prop,
		"tier":        *tier,
		"seed":        seed,
		"level":       info.Level,
		"coverage":    cov,
		"assumptions": asm,
		"wall_s":      round3(time.Since(t0).Seconds()),
		"violations":  violations,
	}
	os.MkdirAll(filepath.Join(verifDir, "evidence"), 0755)
	data, _ := json.MarshalIndent(ev, "", " ")
	os.WriteFile(filepath.Join(verifDir, "evidence", *prop+".json"), data, 0644)
	fmt.Printf("%s: %d functions, %d obligations, %d discharged, %d violations, %d known findings, %.1fs\n", *prop, len(keys), total, discharged, violations, len(knownHit), time.Since(t0).Seconds())
	if violations > 0 {
		os.Exit(1)
	}
}

func round3(x float64) float64 { return float64(int(x*1000+0.5)) / 1000 }

func modelLines(m string) []string {
	var out []string
	lines := strings.Split(m, "\n")
	for i := 0; i < len(lines); i++ {
		l := strings.TrimSpace(lines[i])
		if strings.HasPrefix(l, "(define-fun") && strings.Contains(l, "() Int") || strings.Contains(l, "() Bool") {
			val := ""
			if i+1 < len(lines) {
				val = strings.TrimSuffix(strings.TrimSpace(lines[i+1]), ")")
			}
			f := strings.Fields(l)
			if len(f) > 1 && !strings.Contains(f[1], "@") {
				out = append(out, f[1]+" = "+val)
			}
		}
	}
	sort.Strings(out)
	if len(out) > 200 {
		out = out[:200]
	}
	return out
}

// dischargeCanaries runs the vacuity canaries with a short timeout on one solver.
func dischargeCanaries(cs []job, timeoutS int) {
	saved := solvers
	solvers = solvers[:1]
	dischargeAll(cs, timeoutS, 16, false)
	solvers = saved
}

// crossCheck re-runs every solver-discharged obligation on the solvers that did not decide it.
func crossCheck(jobs []job, timeoutS int, workers int, budget time.Duration) (confirmed, undecided, skipped int, disagree []*Obligation) {
	deadline := time.Now().Add(budget)
	dir, _ := os.MkdirTemp("", "govc-xc-")
	defer os.RemoveAll(dir)
	type res struct {
		ob     *Obligation
		status string // confirmed | undecided | sat
		note   string
		model  string
	}
	ch := make(chan job)
	out := make(chan res, len(jobs))
	var wg sync.WaitGroup
	for i := 0; i < workers; i++ {
		wg.Add(1)
		go func() {
			defer wg.Done()
			for j := range ch {
				winner := strings.TrimSuffix(strings.TrimSuffix(j.ob.Solver, "(qf)"), "(lean)")
				r := res{ob: j.ob, status: "undecided"}
				for _, sp := range solvers {
					if sp.name == winner {
						continue
					}
					st, o, _ := runSolver(context.Background(), sp, j.sc.render(j.ob, sp.pre, false), timeoutS, dir)
					if st == "unsat" {
						r.status = "confirmed"
						r.note = sp.name
						break
					}
					if st == "sat" {
						r.status = "sat"
						r.note = sp.name + ": sat although " + j.ob.Solver + " answered unsat"
						r.model = o
						break
					}
				}
				out <- r
			}
		}()
	}
	n := 0
	for _, j := range jobs {
		if j.ob.Status != "unsat" || j.ob.Solver == "trivial" || j.ob.Solver == "case-split" || j.ob.Kind == "canary" {
			continue
		}
		if time.Now().After(deadline) {
			skipped++
			continue
		}
		n++
		ch <- j
	}
	close(ch)
	wg.Wait()
	close(out)
	for r := range out {
		switch r.status {
		case "confirmed":
			confirmed++
		case "sat":
			r.ob.Output += "; cross-check: " + r.note
			r.ob.Model = r.model
			disagree = append(disagree, r.ob)
		default:
			undecided++
		}
	}
	return
}
