package main

// Contract files: Go source files that contain only a build constraint, a package clause and
// "//@" comment lines. The "//@" payload is a line-oriented language:
//
//   spec  name(a T, b U) R := expr          pure, non-recursive: macro-expanded
//   pred  name(a T) := expr                 Boolean spec
//   ufun  name(a T, b U) R                  uninterpreted function (Int/Bool args and result)
//   axiom #label expr                       trusted fact about ufuns (listed in the evidence)
//   lemma name(a T, ...)                    ghost lemma proved by the engine (requires/ensures/use clauses follow)
//   func  pkg.Recv.Name | pkg.Name          contract block for a function of /repo (or a library function)
//     requires #label [C01 C02] expr
//     ensures  #label [C01] expr
//     loop N invariant #label expr
//     loop N decreases expr
//     trusted                               body is not verified (library / external): listed as assumption
//     pure                                  no heap writes (checked for functions with bodies)
//     noreturn                              the call never returns normally (panics)
//     inline                                always inline at call sites (no modular contract)
//     modifies name, name                   extra heap names havoced at call sites (for trusted functions)
//     ghost-result name T                   extra logical result usable in ensures
//
// A line that does not start with a keyword continues the previous clause.

import (
	"bufio"
	"fmt"
	"os"
	"path/filepath"
	"regexp"
	"strconv"
	"strings"
)

type Clause struct {
	Kind  string // requires ensures invariant decreases use assert
	Label string
	Props []string
	Src   string
	Expr  CExpr
	Loop  int
	File  string
	Line  int
}

type LoopContract struct {
	Invariants []*Clause
	Decreases  *Clause
}

type FuncContract struct {
	Key        string
	Requires   []*Clause
	Ensures    []*Clause
	Loops      map[int]*LoopContract
	Trusted    bool
	Pure       bool
	NoReturn   bool
	Inline     bool
	Modifies   []string
	Iterates   *Clause           // callee: "iterates <map expr>": calls its function argument on every key of the map in ascending key order
	Visits     map[int][]*Clause // caller: "visit K invariant expr": invariant of the K-th iterating call in this function
	Implements string
	After      []*AfterClause
	Reveal     []string
	Frames     []*FrameClause
	Props      []string
	File       string
	Line       int
	// Cases: optional per-case split conditions (verified separately)
	Cases []*Clause
	// Uses: lemma invocations available as hints: "use name(args)" at function entry
	Uses []*Clause
	// Havoc: names of heaps the engine must treat as modified by this function (trusted only)
	FreshResult bool
}

// FrameClause: "frame pkg.Type: e1, e2" — among objects of that struct type that existed before the call, only the
// listed ones may be modified. "frame elems pkg.Type: s1" — among backing arrays with elements of that type, only those of the listed slices.
type FrameClause struct {
	TypeKey string
	Elems   bool
	Exprs   []CExpr
	Src     string
	Line    int
	File    string
}

// AfterClause: "after <callee key> [#k] assert #label expr" — a proof hint checked (then assumed) right after the k-th
// (default: every) call to the callee in the function under contract; "result" names the call's result.
type AfterClause struct {
	Assume  bool
	Env     bool
	Callee  string
	Ordinal int
	Clause  *Clause
}

type SpecDef struct {
	Name   string
	Params []CBinder
	Ret    CType
	Body   CExpr // nil for ufun
	IsPred bool
	IsUfun bool
	Opaque bool
	Reads  []string // ufun: heap-name prefixes the abstract function may depend on (their current versions become arguments)
	Src    string
	File   string
	Line   int
}

type Axiom struct {
	Label string
	Expr  CExpr
	Src   string
	File  string
	Line  int
}

type Lemma struct {
	Props    []string
	Name     string
	Params   []CBinder
	Requires []*Clause
	Ensures  []*Clause
	Uses     []*Clause // "use lemma(args)" possibly guarded: "use c ==> name(args)" is written "use name(args) if c"
	Decr     *Clause
	File     string
	Line     int
}

type Contracts struct {
	Funcs  map[string]*FuncContract
	Specs  map[string]*SpecDef
	Axioms []*Axiom
	Lemmas map[string]*Lemma
	Files  []string
}

var clauseKW = map[string]bool{
	"spec": true, "pred": true, "ufun": true, "axiom": true, "lemma": true, "func": true,
	"requires": true, "ensures": true, "loop": true, "trusted": true, "pure": true, "noreturn": true,
	"inline": true, "modifies": true, "reveal": true, "after": true, "implements": true, "iterates": true, "visit": true, "use": true, "decreases": true, "case": true, "frame": true,
}

var labelRe = regexp.MustCompile(`^#([A-Za-z0-9_\-:.]+)\s*`)
var propsRe = regexp.MustCompile(`^\[([C0-9 ,]+)\]\s*`)

func LoadContracts(files []string) (*Contracts, error) {
	cs := &Contracts{Funcs: map[string]*FuncContract{}, Specs: map[string]*SpecDef{}, Lemmas: map[string]*Lemma{}}
	for _, f := range files {
		if err := cs.loadFile(f); err != nil {
			return nil, err
		}
		cs.Files = append(cs.Files, f)
	}
	return cs, nil
}

type rawClause struct {
	text string
	line int
}

func (cs *Contracts) loadFile(path string) error {
	fh, err := os.Open(path)
	if err != nil {
		return err
	}
	defer fh.Close()
	sc := bufio.NewScanner(fh)
	sc.Buffer(make([]byte, 1<<20), 1<<20)
	var raws []rawClause
	ln := 0
	for sc.Scan() {
		ln++
		line := sc.Text()
		t := strings.TrimSpace(line)
		if !strings.HasPrefix(t, "//@") {
			continue
		}
		body := strings.TrimSpace(strings.TrimPrefix(t, "//@"))
		if body == "" || strings.HasPrefix(body, "--") {
			continue
		}
		first := body
		if i := strings.IndexAny(body, " \t("); i >= 0 {
			first = body[:i]
		}
		if clauseKW[first] {
			raws = append(raws, rawClause{body, ln})
		} else {
			if len(raws) == 0 {
				return fmt.Errorf("%s:%d: continuation without clause", path, ln)
			}
			raws[len(raws)-1].text += " " + body
		}
	}
	base := filepath.Base(filepath.Dir(path)) + "/" + filepath.Base(path)
	var curF *FuncContract
	var curL *Lemma
	for _, rc := range raws {
		kw, rest := splitKW(rc.text)
		mkClause := func(kind, rest string) (*Clause, error) {
			c := &Clause{Kind: kind, File: base, Line: rc.line}
			if m := labelRe.FindStringSubmatch(rest); m != nil {
				c.Label = m[1]
				rest = rest[len(m[0]):]
			}
			if m := propsRe.FindStringSubmatch(rest); m != nil {
				for _, p := range strings.FieldsFunc(m[1], func(r rune) bool { return r == ' ' || r == ',' }) {
					c.Props = append(c.Props, p)
				}
				rest = rest[len(m[0]):]
			}
			c.Src = rest
			e, err := parseCExpr(rest)
			if err != nil {
				return nil, fmt.Errorf("%s:%d: %v", path, rc.line, err)
			}
			c.Expr = e
			return c, nil
		}
		switch kw {
		case "spec", "pred", "ufun":
			curF, curL = nil, nil
			sd, err := parseSpecDef(kw, rest)
			if err != nil {
				return fmt.Errorf("%s:%d: %v", path, rc.line, err)
			}
			sd.File, sd.Line = base, rc.line
			if _, dup := cs.Specs[sd.Name]; dup {
				return fmt.Errorf("%s:%d: duplicate spec %s", path, rc.line, sd.Name)
			}
			cs.Specs[sd.Name] = sd
		case "axiom":
			curF, curL = nil, nil
			c, err := mkClause("axiom", rest)
			if err != nil {
				return err
			}
			cs.Axioms = append(cs.Axioms, &Axiom{Label: c.Label, Expr: c.Expr, Src: c.Src, File: base, Line: rc.line})
		case "lemma":
			curF = nil
			var lprops []string
			if i := strings.LastIndex(rest, "["); i >= 0 && strings.HasSuffix(strings.TrimSpace(rest), "]") && strings.Contains(rest[i:], "C") {
				for _, p := range strings.FieldsFunc(strings.Trim(rest[i:], "[] "), func(r rune) bool { return r == ' ' || r == ',' }) {
					lprops = append(lprops, p)
				}
				rest = strings.TrimSpace(rest[:i])
			}
			name, params, _, err := parseSig(rest)
			if err != nil {
				return fmt.Errorf("%s:%d: %v", path, rc.line, err)
			}
			curL = &Lemma{Name: name, Params: params, File: base, Line: rc.line, Props: lprops}
			cs.Lemmas[name] = curL
		case "func":
			curL = nil
			key := strings.TrimSpace(rest)
			var fprops []string
			if i := strings.Index(key, "["); i >= 0 {
				for _, p := range strings.FieldsFunc(strings.Trim(key[i:], "[] "), func(r rune) bool { return r == ' ' || r == ',' }) {
					fprops = append(fprops, p)
				}
				key = strings.TrimSpace(key[:i])
			}
			if prev, dup := cs.Funcs[key]; dup {
				return fmt.Errorf("%s:%d: duplicate contract for %s (first at %s:%d)", path, rc.line, key, prev.File, prev.Line)
			}
			curF = &FuncContract{Key: key, Loops: map[int]*LoopContract{}, File: base, Line: rc.line, Props: fprops}
			cs.Funcs[key] = curF
		case "requires", "ensures", "use", "decreases", "case":
			c, err := mkClause(kw, rest)
			if err != nil {
				return err
			}
			switch {
			case curF != nil:
				switch kw {
				case "requires":
					curF.Requires = append(curF.Requires, c)
				case "ensures":
					curF.Ensures = append(curF.Ensures, c)
				case "use":
					curF.Uses = append(curF.Uses, c)
				case "case":
					curF.Cases = append(curF.Cases, c)
				default:
					return fmt.Errorf("%s:%d: %s not allowed in func block", path, rc.line, kw)
				}
			case curL != nil:
				switch kw {
				case "requires":
					curL.Requires = append(curL.Requires, c)
				case "ensures":
					curL.Ensures = append(curL.Ensures, c)
				case "use":
					curL.Uses = append(curL.Uses, c)
				case "decreases":
					curL.Decr = c
				}
			default:
				return fmt.Errorf("%s:%d: clause outside func/lemma block", path, rc.line)
			}
		case "loop":
			if curF == nil {
				return fmt.Errorf("%s:%d: loop clause outside func block", path, rc.line)
			}
			parts := strings.Fields(rest)
			if len(parts) < 3 {
				return fmt.Errorf("%s:%d: malformed loop clause", path, rc.line)
			}
			n, err := strconv.Atoi(parts[0])
			if err != nil {
				return fmt.Errorf("%s:%d: loop ordinal: %v", path, rc.line, err)
			}
			kind := parts[1]
			r2 := strings.TrimSpace(strings.TrimPrefix(strings.TrimSpace(strings.TrimPrefix(rest, parts[0])), kind))
			c, err := mkClause(kind, r2)
			if err != nil {
				return err
			}
			c.Loop = n
			lc := curF.Loops[n]
			if lc == nil {
				lc = &LoopContract{}
				curF.Loops[n] = lc
			}
			switch kind {
			case "invariant":
				lc.Invariants = append(lc.Invariants, c)
			case "decreases":
				lc.Decreases = c
			default:
				return fmt.Errorf("%s:%d: unknown loop clause %q", path, rc.line, kind)
			}
		case "frame":
			if curF == nil {
				return fmt.Errorf("%s:%d: frame outside func", path, rc.line)
			}
			fcl := &FrameClause{Src: rest, Line: rc.line, File: base}
			r := rest
			if strings.HasPrefix(r, "elems ") {
				fcl.Elems = true
				r = strings.TrimSpace(strings.TrimPrefix(r, "elems "))
			}
			i := strings.Index(r, ":")
			if i < 0 {
				return fmt.Errorf("%s:%d: frame needs 'Type: exprs'", path, rc.line)
			}
			fcl.TypeKey = strings.TrimSpace(r[:i])
			for _, es := range splitTopLevel(r[i+1:]) {
				if es = strings.TrimSpace(es); es == "" {
					continue
				}
				e, err := parseCExpr(es)
				if err != nil {
					return fmt.Errorf("%s:%d: %v", path, rc.line, err)
				}
				fcl.Exprs = append(fcl.Exprs, e)
			}
			curF.Frames = append(curF.Frames, fcl)
		case "trusted":
			if curF == nil {
				return fmt.Errorf("%s:%d: trusted outside func", path, rc.line)
			}
			curF.Trusted = true
		case "pure":
			curF.Pure = true
		case "noreturn":
			curF.NoReturn = true
		case "inline":
			curF.Inline = true
		case "after":
			if curF == nil {
				return fmt.Errorf("%s:%d: after outside func", path, rc.line)
			}
			parts := strings.SplitN(rest, " assert ", 2)
			ac := &AfterClause{}
			if len(parts) != 2 {
				// an assumption about the caller's input that only the callee can judge ("this request is one the callee
				// accepts"): restricted to '<error result> == nil', always listed among the assumptions of the evidence
				parts = strings.SplitN(rest, " env-assume ", 2)
				ac.Assume, ac.Env = true, true
			}
			if len(parts) != 2 {
				parts = strings.SplitN(rest, " assume ", 2)
				ac.Assume, ac.Env = true, false
			}
			if len(parts) != 2 {
				return fmt.Errorf("%s:%d: after needs '<callee> assert|assume <expr>'", path, rc.line)
			}
			cf := strings.Fields(parts[0])
			ac.Callee = cf[0]
			if len(cf) > 1 {
				n, err := strconv.Atoi(strings.TrimPrefix(cf[1], "#"))
				if err != nil {
					return fmt.Errorf("%s:%d: after: bad ordinal", path, rc.line)
				}
				ac.Ordinal = n
			}
			c, err := mkClause("assert", parts[1])
			if err != nil {
				return err
			}
			ac.Clause = c
			if ac.Env {
				b, ok := c.Expr.(*CBinary)
				okShape := false
				if ok && b.Op == "==" {
					if id, isID := b.L.(*CIdent); isID && strings.HasPrefix(id.Name, "result") {
						if _, isNil := b.R.(*CNil); isNil {
							okShape = true
						}
					}
				}
				if !okShape || c.Label == "" {
					return fmt.Errorf("%s:%d: 'after ... env-assume' must be '#E-label resultN == nil'", path, rc.line)
				}
			}
			if ac.Assume && !ac.Env && !onlyAxiomInstances(c.Expr) {
				return fmt.Errorf("%s:%d: 'after ... assume' may only contain engine-axiom instances (cnt_mono) under && and forall", path, rc.line)
			}
			curF.After = append(curF.After, ac)
		case "iterates":
			if curF == nil {
				return fmt.Errorf("%s:%d: iterates outside func", path, rc.line)
			}
			c, err := mkClause("iterates", rest)
			if err != nil {
				return err
			}
			curF.Iterates = c
		case "visit":
			if curF == nil {
				return fmt.Errorf("%s:%d: visit outside func", path, rc.line)
			}
			parts := strings.Fields(rest)
			if len(parts) < 3 || parts[1] != "invariant" {
				return fmt.Errorf("%s:%d: expected 'visit K invariant expr'", path, rc.line)
			}
			n, err := strconv.Atoi(parts[0])
			if err != nil {
				return fmt.Errorf("%s:%d: visit ordinal: %v", path, rc.line, err)
			}
			r2 := strings.TrimSpace(strings.TrimPrefix(strings.TrimSpace(strings.TrimPrefix(rest, parts[0])), "invariant"))
			c, err := mkClause("invariant", r2)
			if err != nil {
				return err
			}
			if curF.Visits == nil {
				curF.Visits = map[int][]*Clause{}
			}
			curF.Visits[n] = append(curF.Visits[n], c)
		case "implements":
			if curF == nil {
				return fmt.Errorf("%s:%d: implements outside func", path, rc.line)
			}
			curF.Implements = strings.TrimSpace(rest)
		case "reveal":
			if curF == nil {
				return fmt.Errorf("%s:%d: reveal outside func", path, rc.line)
			}
			for _, m := range strings.Split(rest, ",") {
				if m = strings.TrimSpace(m); m != "" {
					curF.Reveal = append(curF.Reveal, m)
				}
			}
		case "modifies":
			for _, m := range strings.Split(rest, ",") {
				if m = strings.TrimSpace(m); m != "" {
					curF.Modifies = append(curF.Modifies, m)
				}
			}
		}
	}
	return nil
}

func splitKW(s string) (string, string) {
	i := strings.IndexAny(s, " \t")
	if i < 0 {
		return s, ""
	}
	return s[:i], strings.TrimSpace(s[i+1:])
}

// parseSig parses "name(a T, b U) R" (R optional).
func parseSig(s string) (name string, params []CBinder, ret CType, err error) {
	toks, err := lexExpr(s)
	if err != nil {
		return
	}
	p := &cparser{toks: toks, src: s}
	defer func() {
		if r := recover(); r != nil {
			if pe, ok := r.(parseErr); ok {
				err = fmt.Errorf("%s in %q", string(pe), s)
				return
			}
			panic(r)
		}
	}()
	id := p.next()
	if id.k != tIdent {
		p.fail("expected name")
	}
	name = id.s
	p.expect("(")
	for !p.isOp(")") {
		n := p.next()
		if n.k != tIdent {
			p.fail("expected parameter name")
		}
		params = append(params, CBinder{n.s, p.parseType()})
		if !p.accept(",") {
			break
		}
	}
	p.expect(")")
	if p.peek().k != tEOF {
		ret = p.parseType()
	}
	if p.peek().k != tEOF {
		p.fail("trailing tokens in signature")
	}
	return
}

func parseSpecDef(kw, rest string) (*SpecDef, error) {
	sd := &SpecDef{IsPred: kw == "pred", IsUfun: kw == "ufun", Src: rest}
	if strings.HasPrefix(rest, "opaque ") {
		sd.Opaque = true
		rest = strings.TrimSpace(strings.TrimPrefix(rest, "opaque "))
	}
	if i := strings.Index(rest, " reads "); i >= 0 && kw == "ufun" {
		for _, r := range strings.Split(rest[i+7:], ",") {
			if r = strings.TrimSpace(r); r != "" {
				sd.Reads = append(sd.Reads, r)
			}
		}
		rest = strings.TrimSpace(rest[:i])
	}
	sig, body := rest, ""
	if i := strings.Index(rest, ":="); i >= 0 {
		sig, body = strings.TrimSpace(rest[:i]), strings.TrimSpace(rest[i+2:])
	}
	name, params, ret, err := parseSig(sig)
	if err != nil {
		return nil, err
	}
	sd.Name, sd.Params, sd.Ret = name, params, ret
	if sd.IsPred {
		sd.Ret = CType{Name: "bool"}
	}
	if sd.IsUfun {
		if body != "" {
			return nil, fmt.Errorf("ufun %s must not have a body", name)
		}
		return sd, nil
	}
	if body == "" {
		return nil, fmt.Errorf("spec %s needs a body", name)
	}
	e, err := parseCExpr(body)
	if err != nil {
		return nil, err
	}
	sd.Body = e
	return sd, nil
}

// splitTopLevel splits on commas that are not nested in parentheses/brackets.
func splitTopLevel(s string) []string {
	var out []string
	d, start := 0, 0
	for i, c := range s {
		switch c {
		case '(', '[':
			d++
		case ')', ']':
			d--
		case ',':
			if d == 0 {
				out = append(out, s[start:i])
				start = i + 1
			}
		}
	}
	return append(out, s[start:])
}

// onlyAxiomInstances: the expression is built from cnt_cong(...) calls with && and forall only.
func onlyAxiomInstances(e CExpr) bool {
	switch x := e.(type) {
	case *CBinary:
		return x.Op == "&&" && onlyAxiomInstances(x.L) && onlyAxiomInstances(x.R)
	case *CQuant:
		return x.Forall && onlyAxiomInstances(x.Body)
	case *CCall:
		id, ok := x.Fun.(*CIdent)
		return ok && id.Name == "cnt_mono"
	}
	return false
}
