package main

import (
	"fmt"
	"go/types"
	"regexp"
	"strings"

	"golang.org/x/tools/go/ssa"
)

const cntBound = "|cnt?k|"

func (tr *Tr) evalCall(env *CEnv, x *CCall) (Value, types.Type) {
	bt := types.Typ[types.Bool]
	if id, ok := x.Fun.(*CIdent); ok {
		switch id.Name {
		case "len":
			v, t := tr.evalC(env, x.Args[0])
			v = tr.rval(env, v, t)
			switch y := v.(type) {
			case Sl:
				return Sc{T: y.Len}, nil
			case Sc:
				if mt, ok := t.Underlying().(*types.Map); ok {
					tr.nilMapFacts(env.st, mt, y.T)
					return Sc{T: sSel(tr.mapLen(env.st, mt), y.T)}, nil
				}
				if isString(t) {
					return Sc{T: tr.g.strlen(tr, y.T)}, nil
				}
			case St:
				return Sc{T: fmt.Sprint(len(y.F))}, nil
			}
			panic(subsetErr("len() in contract on " + fmt.Sprint(t)))
		case "cap":
			v, t := tr.evalC(env, x.Args[0])
			return Sc{T: tr.asSl(tr.rval(env, v, t)).Cap}, nil
		case "has":
			v, t := tr.evalC(env, x.Args[0])
			mt, ok := t.Underlying().(*types.Map)
			if !ok {
				panic(subsetErr("has() on non-map"))
			}
			m := tr.asSc(tr.rval(env, v, t), t).T
			tr.nilMapFacts(env.st, mt, m)
			k := tr.evalInt(env, x.Args[1])
			return boolV(sSel(sSel(tr.mapDom(env.st, mt), m), k)), bt
		case "min", "max":
			a, b := tr.evalInt(env, x.Args[0]), tr.evalInt(env, x.Args[1])
			if id.Name == "min" {
				return Sc{T: sIte(sLe(a, b), a, b)}, nil
			}
			return Sc{T: sIte(sLe(b, a), a, b)}, nil
		case "elem":
			// elem(s, p): the element at absolute backing-array position p (use with s.off <= p < s.off + len(s));
			// quantifying over absolute positions gives the solver a trigger that matches every access to the array.
			v, t := tr.evalC(env, x.Args[0])
			sl := tr.asSl(tr.rval(env, v, t))
			pos := tr.evalInt(env, x.Args[1])
			et := t.Underlying().(*types.Slice).Elem()
			l := Loc{Kind: LElem, Prefix: elemPrefix(et), Ref: sl.Arr, Idx: pos}
			if kindOf(et) == kStruct {
				return LocV{L: l, Typ: et}, et
			}
			return tr.loadAt(env.st, l, et), et
		case "oldelem":
			// oldelem(s, p): the element that the slice s, taken at function entry, held at absolute position p in the entry
			// heap; p itself is evaluated in the current state (lets a postcondition relate new positions to old contents
			// with the new-state element as the only trigger)
			oenv := *env
			oenv.st = env.old
			v, t := tr.evalC(&oenv, x.Args[0])
			sl := tr.asSl(tr.rval(&oenv, v, t))
			pos := tr.evalInt(env, x.Args[1])
			et := t.Underlying().(*types.Slice).Elem()
			l := Loc{Kind: LElem, Prefix: elemPrefix(et), Ref: sl.Arr, Idx: pos}
			if kindOf(et) == kStruct {
				panic(subsetErr("oldelem() on a slice of structs"))
			}
			return tr.loadAt(oenv.st, l, et), et
		case "sumarr":
			av, _ := tr.evalC(env, x.Args[0])
			a, ok := av.(Ar)
			if !ok {
				panic(subsetErr("sumarr(a, o, k): a must be an arr"))
			}
			tr.sumSizeDecl()
			return Sc{T: "(|sumsz| " + a.T + " " + tr.evalInt(env, x.Args[1]) + " " + tr.evalInt(env, x.Args[2]) + ")"}, nil
		case "arrof":
			v, t := tr.evalC(env, x.Args[0])
			sl := tr.asSl(tr.rval(env, v, t))
			et := t.Underlying().(*types.Slice).Elem()
			if kindOf(et) != kInt {
				panic(subsetErr("arrof() on a slice of non-scalar elements"))
			}
			h := tr.heapVar(env.st, elemPrefix(et), arr2(sortInt))
			return Ar{T: sSel(h, sl.Arr)}, arrType
		case "sumsize":
			v, t := tr.evalC(env, x.Args[0])
			sl := tr.asSl(tr.rval(env, v, t))
			k := tr.evalInt(env, x.Args[1])
			et := t.Underlying().(*types.Slice).Elem()
			return Sc{T: tr.sumSize(env.st, et, sl, k)}, nil
		case "acntge", "acntgt":
			v, t := tr.evalC(env, x.Args[0])
			sl := tr.asSl(tr.rval(env, v, t))
			val := tr.evalInt(env, x.Args[1])
			et := t.Underlying().(*types.Slice).Elem()
			h := tr.heapVar(env.st, elemPrefix(et), arr2(sortInt))
			tr.arrayCountAxioms()
			return Sc{T: fmt.Sprintf("(|%s| %s %s %s %s)", id.Name, sSel(h, sl.Arr), sl.Off, sAdd(sl.Off, sl.Len), val)}, nil
		case "sumpay":
			v, t := tr.evalC(env, x.Args[0])
			sl := tr.asSl(tr.rval(env, v, t))
			k := tr.evalInt(env, x.Args[1])
			et := t.Underlying().(*types.Slice).Elem()
			return Sc{T: tr.sumPayload(env.st, et, sl, k)}, nil
		case "sumpayarr":
			av, _ := tr.evalC(env, x.Args[0])
			dv, _ := tr.evalC(env, x.Args[3])
			tr.sumPayDecl()
			return Sc{T: "(|sumpl| " + av.(Ar).T + " " + tr.evalInt(env, x.Args[1]) + " " + tr.evalInt(env, x.Args[2]) + " " + dv.(Ar).T + ")"}, nil
		case "le64":
			v, t := tr.evalC(env, x.Args[0])
			return Sc{T: tr.le64(env.st, tr.asSl(tr.rval(env, v, t)))}, nil
		case "psize":
			v, t := tr.evalC(env, x.Args[0])
			return Sc{T: tr.protoSize(tr.asSc(tr.rval(env, v, t), t).T)}, nil
		case "cnt":
			return tr.evalCnt(env, x), nil
		case "cntsofar":
			return tr.evalCntSoFar(env, x), nil
		case "cnt_mono":
			// cnt_mono(m, k :: P, k :: Q): the engine axiom instance A-count-mono as a formula:
			//   (forall k in m: P(k) ==> Q(k)) ==> cnt(m,P) <= cnt(m,Q)
			// Only usable in "after ... assume" clauses (checked syntactically by the contract loader).
			c1 := tr.evalCnt(env, &CCall{Fun: &CIdent{"cnt"}, Args: []CExpr{x.Args[0], x.Args[1]}}).(Sc).T
			c2 := tr.evalCnt(env, &CCall{Fun: &CIdent{"cnt"}, Args: []CExpr{x.Args[0], x.Args[2]}}).(Sc).T
			mv, mt0 := tr.evalC(env, x.Args[0])
			mt := mt0.Underlying().(*types.Map)
			m := tr.asSc(tr.rval(env, mv, mt0), mt0).T
			dom := sSel(tr.mapDom(env.st, mt), m)
			l1, l2 := x.Args[1].(*CLambda), x.Args[2].(*CLambda)
			tr.fresh++
			kv := smtName(fmt.Sprintf("k?%d", tr.fresh))
			b1 := tr.evalBool(env.with(l1.Var, EV{V: Sc{T: kv}, T: mt.Key()}), l1.Body)
			b2 := tr.evalBool(env.with(l2.Var, EV{V: Sc{T: kv}, T: mt.Key()}), l2.Body)
			tr.assumptions["A-count-mono: if P implies Q pointwise on a map's keys then #P <= #Q (engine axiom about finite counts)"] = true
			inDom := sSel(dom, kv)
			if lo, hi, ok := intRange(mt.Key()); ok {
				inDom = sAnd(inDom, sLe(lo, kv), sLe(kv, hi)) // keys of the map are values of the key type
			}
			return boolV(fmt.Sprintf("(=> (forall ((%s Int)) (=> %s (=> %s %s))) (<= %s %s))", kv, inDom, b1, b2, c1, c2)), bt
		case "asiface":
			// asiface(x, "pkg.Type"): the interface value obtained by converting x (of that dynamic type) to an interface
			v, t := tr.evalC(env, x.Args[0])
			name := x.Args[1].(*CStr).Val
			return If{Tag: fmt.Sprint(tr.g.typeTagByName(name)), Val: tr.asSc(tr.rval(env, v, t), t).T}, nil
		case "seen":
			if env.loop == nil || env.loop.enum == nil {
				panic(subsetErr("seen() outside a range-over-map loop invariant"))
			}
			e := env.loop.enum
			k := tr.evalInt(env, x.Args[0])
			it := env.st.vars[e.counter].(Sc).T
			return boolV(sAnd(sSel(e.dom, k), sLt("("+e.rank+" "+k+")", it))), bt
		case "entry":
			// entry(x): the value of parameter x at function entry (parameters are mutable in Go; SSA parameters are not)
			pid, ok := x.Args[0].(*CIdent)
			if !ok || env.fr == nil {
				panic(subsetErr("entry(x) needs a parameter name inside a loop invariant"))
			}
			for _, p := range env.fr.fn.Params {
				if p.Name() == pid.Name {
					return tr.val(env.fr, p), p.Type()
				}
			}
			panic(subsetErr("entry(): no parameter " + pid.Name))
		case "key":
			if env.loop == nil || env.loop.enum == nil {
				panic(subsetErr("key(i) outside a map-iteration invariant"))
			}
			return Sc{T: "(" + env.loop.enum.pick + " " + tr.evalInt(env, x.Args[0]) + ")"}, env.loop.enum.mtyp.Key()
		case "allocframe":
			// allocframe("heap-prefix", ...): every object that existed at function entry has the same contents in the named
			// heap variables now as it had at entry (the code in between only wrote to objects it allocated itself)
			reg := tr.g.heapRegistry()
			var cs []string
			oldSt := env.old
			if oldSt == nil {
				oldSt = tr.oldStateOr(env)
			}
			otop := oldSt.top
			tr.noteFrameTop(otop)
			for _, a := range x.Args {
				pre := a.(*CStr).Val
				matched := false
				for _, hn := range sortedKeys(reg) {
					if hn == pre || strings.HasPrefix(hn, pre+"#") || strings.HasPrefix(hn, pre+".") {
						matched = true
						now := tr.heapVar(env.st, hn, reg[hn])
						old := tr.heapVar(oldSt, hn, reg[hn])
						if now == old {
							continue
						}
						tr.fresh++
						cs = append(cs, fmt.Sprintf("(forall ((r Int)) (! (=> (and (< 0 r) (< r %s)) (= (select %s r) (select %s r))) :pattern ((select %s r)) :qid AF%d))", otop, now, old, now, tr.fresh))
						if tr.assumeMode {
							if _, has := tr.allocParent[now]; !has {
								tr.allocParent[now] = old
							}
						}
					}
				}
				if !matched {
					panic(subsetErr("allocframe: unknown heap name " + pre))
				}
			}
			return boolV(sAnd(cs...)), bt
		case "deref":
			// deref(p): the pointee of pointer p in the current state
			v, t := tr.evalC(env, x.Args[0])
			ptr, ok := t.Underlying().(*types.Pointer)
			if !ok {
				panic(subsetErr("deref() of a non-pointer"))
			}
			pv := tr.rval(env, v, t)
			return LocV{L: tr.locOf(pv, ptr.Elem()), Typ: ptr.Elem()}, ptr.Elem()
		case "ncalls":
			if tr.cbParam == nil {
				panic(subsetErr("ncalls outside an iterating function"))
			}
			return env.st.vars[cbN], nil
		case "callid":
			if tr.cbParam == nil {
				panic(subsetErr("callid() outside an iterating function"))
			}
			return Sc{T: sSel(env.st.vars[cbID].(Sc).T, tr.evalInt(env, x.Args[0]))}, nil
		case "sameheap":
			// sameheap("heap-prefix", ...): the named heap variables are identical (as whole arrays) to what they were in the old state
			reg := tr.g.heapRegistry()
			var cs []string
			oldSt := env.old
			if oldSt == nil {
				oldSt = tr.oldStateOr(env)
			}
			for _, a := range x.Args {
				pre := a.(*CStr).Val
				matched := false
				for _, hn := range sortedKeys(reg) {
					if hn == pre || strings.HasPrefix(hn, pre+"#") || strings.HasPrefix(hn, pre+".") {
						matched = true
						now := tr.heapVar(env.st, hn, reg[hn])
						old := tr.heapVar(oldSt, hn, reg[hn])
						cs = append(cs, sEq(now, old))
					}
				}
				if !matched {
					panic(subsetErr("sameheap: unknown heap name " + pre))
				}
			}
			return boolV(sAnd(cs...)), bt
		case "frameexcept":
			// frameexcept("heap-prefix", x, y, ...): every object that existed at function entry, other than the listed ones
			// (slices: their backing arrays), has the same contents in the named heap variables now as it had at entry
			reg := tr.g.heapRegistry()
			var cs []string
			oldSt := env.old
			if oldSt == nil {
				oldSt = tr.oldStateOr(env)
			}
			tr.noteFrameTop(oldSt.top)
			pre := x.Args[0].(*CStr).Val
			conds := []string{"(< 0 r)", "(< r " + oldSt.top + ")"}
			for _, a := range x.Args[1:] {
				v, t := tr.evalC(env, a)
				conds = append(conds, sNot(sEq("r", tr.refOf(env, v, t))))
			}
			matched := false
			for _, hn := range sortedKeys(reg) {
				if hn == pre || strings.HasPrefix(hn, pre+"#") || strings.HasPrefix(hn, pre+".") {
					matched = true
					now := tr.heapVar(env.st, hn, reg[hn])
					old := tr.heapVar(oldSt, hn, reg[hn])
					if now == old {
						continue
					}
					tr.fresh++
					cs = append(cs, fmt.Sprintf("(forall ((r Int)) (! (=> %s (= (select %s r) (select %s r))) :pattern ((select %s r)) :qid FX%d))", sAnd(conds...), now, old, now, tr.fresh))
				}
			}
			if !matched {
				panic(subsetErr("frameexcept: unknown heap name " + pre))
			}
			return boolV(sAnd(cs...)), bt
		case "funcid":
			// funcid("pkg.Func" | "pkg.Type.Method"): the identity of a function value (bound method values are identified by the method)
			name := x.Args[0].(*CStr).Val
			f := tr.g.funcs[name]
			if f == nil {
				f = tr.g.funcs[name+"#bound method wrapper for "+name]
			}
			if f == nil {
				// bound method wrappers are created on demand: look for a function whose key starts with name
				for k, v := range tr.g.funcs {
					if strings.HasPrefix(k, name+"#") || k == name {
						f = v
					}
				}
			}
			if f == nil {
				panic(subsetErr("funcid: unknown function " + name))
			}
			return Sc{T: tr.g.funcIDByKey(name, f)}, nil
		case "fresh":
			v, t := tr.evalC(env, x.Args[0])
			r := tr.refOf(env, v, t)
			return boolV(sAnd(sLe(env.old.top, r), sLt(r, env.st.top))), bt
		case "allocated":
			v, t := tr.evalC(env, x.Args[0])
			r := tr.refOf(env, v, t)
			return boolV(sAnd(sLt("0", r), sLt(r, env.st.top))), bt
		case "wasallocated":
			v, t := tr.evalC(env, x.Args[0])
			r := tr.refOf(env, v, t)
			return boolV(sAnd(sLt("0", r), sLt(r, env.old.top))), bt
		case "isnil":
			v, t := tr.evalC(env, x.Args[0])
			switch y := tr.rval(env, v, t).(type) {
			case Sl:
				return boolV(sEq(y.Arr, "0")), bt
			case If:
				return boolV(sEq(y.Tag, "0")), bt
			case Sc:
				return boolV(sEq(y.T, "0")), bt
			}
		case "int", "uint64", "int64", "uint32", "int32":
			// conversions are identities on mathematical integers in contracts
			v, _ := tr.evalC(env, x.Args[0])
			return v, nil
		case "typeis":
			// typeis(iface, "pkg.Type") / "*pkg.Type"
			v, t := tr.evalC(env, x.Args[0])
			iv := tr.asIf(tr.rval(env, v, t))
			name := x.Args[1].(*CStr).Val
			return boolV(sEq(iv.Tag, fmt.Sprint(tr.g.typeTagByName(name)))), bt
		case "ifacetag":
			v, t := tr.evalC(env, x.Args[0])
			return Sc{T: tr.asIf(tr.rval(env, v, t)).Tag}, nil
		case "ifaceval":
			v, t := tr.evalC(env, x.Args[0])
			iv := tr.asIf(tr.rval(env, v, t))
			if len(x.Args) > 1 {
				name := x.Args[1].(*CStr).Val
				return Sc{T: iv.Val}, tr.g.typeByName(name)
			}
			return Sc{T: iv.Val}, nil
		}
		if sd := tr.g.contracts.Specs[id.Name]; sd != nil {
			return tr.evalSpec(env, sd, x.Args)
		}
		// package-level Go function
		if env.pkg != nil {
			if obj, ok := env.pkg.Scope().Lookup(id.Name).(*types.Func); ok {
				f := tr.g.prog.FuncValue(obj)
				return tr.evalGoCall(env, f, nil, x.Args)
			}
		}
		panic(subsetErr("unknown function in contract: " + id.Name))
	}
	if sel, ok := x.Fun.(*CSelect); ok {
		// pkg.Func(...)
		if id, ok := sel.X.(*CIdent); ok {
			if _, isVar := env.vars[id.Name]; !isVar && (env.fr == nil || !tr.frameHasName(env, id.Name)) {
				if p := tr.g.pkgByName(env.pkg, id.Name); p != nil {
					if obj, ok := p.Scope().Lookup(sel.Sel).(*types.Func); ok {
						return tr.evalGoCall(env, tr.g.prog.FuncValue(obj), nil, x.Args)
					}
					panic(subsetErr("unknown function " + id.Name + "." + sel.Sel))
				}
			}
		}
		// method call
		rv, rt := tr.evalC(env, sel.X)
		if rt == nil {
			panic(subsetErr("method call on untyped expression " + x.String()))
		}
		ms := tr.g.prog.MethodSets.MethodSet(rt)
		var msel *types.Selection
		for i := 0; i < ms.Len(); i++ {
			if ms.At(i).Obj().Name() == sel.Sel {
				msel = ms.At(i)
			}
		}
		if msel == nil {
			// addressable receiver: try pointer method set
			if _, isPtr := rt.Underlying().(*types.Pointer); !isPtr {
				ms = tr.g.prog.MethodSets.MethodSet(types.NewPointer(rt))
				for i := 0; i < ms.Len(); i++ {
					if ms.At(i).Obj().Name() == sel.Sel {
						msel = ms.At(i)
					}
				}
				if msel != nil {
					if lv, ok := rv.(LocV); ok {
						rv = Sc{T: tr.asRef(lv)}
						rt = types.NewPointer(rt)
					}
				}
			}
		}
		if msel == nil {
			panic(subsetErr("no method " + sel.Sel + " on " + rt.String()))
		}
		f := tr.g.prog.MethodValue(msel)
		if f == nil {
			panic(subsetErr("abstract method in contract: " + sel.Sel))
		}
		recv := &EV{V: tr.rvalForRecv(env, rv, rt, f), T: rt}
		return tr.evalGoCall(env, f, recv, x.Args)
	}
	panic(subsetErr("call expression " + x.String()))
}

func (tr *Tr) rvalForRecv(env *CEnv, v Value, t types.Type, f *ssa.Function) Value {
	// value receivers need the loaded value; pointer receivers the reference
	if _, isPtr := f.Signature.Recv().Type().Underlying().(*types.Pointer); isPtr {
		if lv, ok := v.(LocV); ok {
			return Sc{T: tr.asRef(lv)}
		}
		return v
	}
	if _, isPtr := t.Underlying().(*types.Pointer); isPtr {
		// auto-deref
		pt := t.Underlying().(*types.Pointer).Elem()
		return tr.loadAt(env.st, tr.locOf(tr.rval(env, v, t), pt), pt)
	}
	return tr.rval(env, v, t)
}

func (tr *Tr) refOf(env *CEnv, v Value, t types.Type) string {
	switch y := tr.rval(env, v, t).(type) {
	case Sl:
		return y.Arr
	case Sc:
		return y.T
	case LocV:
		return tr.asRef(y)
	}
	panic(subsetErr("expected reference"))
}

// evalGoCall symbolically executes a (pure, loop-free or invariant-carrying) Go function in spec mode.
func (tr *Tr) evalGoCall(env *CEnv, f *ssa.Function, recv *EV, argEs []CExpr) (Value, types.Type) {
	if f == nil {
		panic(subsetErr("cannot resolve Go function in contract"))
	}
	var args []Value
	if recv != nil {
		args = append(args, recv.V)
	}
	params := f.Signature.Params()
	for i, a := range argEs {
		v, t := tr.evalC(env, a)
		var pt types.Type
		if i < params.Len() {
			pt = params.At(i).Type()
		}
		if pt != nil {
			t = pt
		}
		args = append(args, tr.rval(env, v, t))
	}
	var resT types.Type
	switch f.Signature.Results().Len() {
	case 0:
	case 1:
		resT = f.Signature.Results().At(0).Type()
	default:
		resT = f.Signature.Results()
	}
	tr.specMode++
	defer func() { tr.specMode-- }()
	st := env.st.clone()
	st.guard = "true"
	// contracts of pure functions may be used instead of the body
	key := tr.g.funcKey(f)
	anyBound := false
	for _, a := range args {
		anyBound = anyBound || hasBound(a)
	}
	if fc := tr.g.contracts.Funcs[key]; fc != nil && fc.Pure && !fc.Inline && len(fc.Ensures) > 0 && !anyBound {
		v := tr.callContract(key, fc, f, f.Signature, nil, args, f.Signature.Results(), st)
		return v, resT
	}
	if v, handled := tr.libCall(key, f, args, f.Signature.Results(), st); handled {
		return v, resT
	}
	v := tr.inline(env.fr, f, nil, args, st)
	return v, resT
}

func (tr *Tr) evalSpec(env *CEnv, sd *SpecDef, argEs []CExpr) (Value, types.Type) {
	if len(argEs) != len(sd.Params) {
		panic(subsetErr(fmt.Sprintf("spec %s: expected %d arguments, got %d", sd.Name, len(sd.Params), len(argEs))))
	}
	spkg := tr.g.pkgOfFile(sd.File)
	if spkg == nil {
		spkg = env.pkg
	}
	penv := &CEnv{vars: map[string]EV{}, st: env.st, old: env.old, pkg: spkg, loop: env.loop}
	if sd.IsUfun {
		var ts []string
		sig := "("
		for i, a := range argEs {
			pt := tr.resolveCType(penv, sd.Params[i].Typ)
			v, t := tr.evalC(env, a)
			if kindOf(pt) == kIface {
				iv := tr.asIf(tr.rval(env, v, t))
				ts = append(ts, iv.Tag, iv.Val)
				sig += "Int Int "
				continue
			}
			s := tr.asSc(tr.rval(env, v, t), pt)
			ts = append(ts, s.T)
			if kindOf(pt) == kBool {
				sig += "Bool "
			} else {
				sig += "Int "
			}
		}
		// declared heap dependencies: the current versions of those heap variables are arguments of the abstract function
		if len(sd.Reads) > 0 {
			reg := tr.g.heapRegistry()
			for _, hn := range sortedKeys(reg) {
				for _, rd := range sd.Reads {
					if hn == rd || strings.HasPrefix(hn, rd+"#") || strings.HasPrefix(hn, rd+".") {
						ts = append(ts, tr.heapVar(env.st, hn, reg[hn]))
						sig += reg[hn] + " "
						break
					}
				}
			}
		}
		rt := tr.resolveCType(penv, sd.Ret)
		rs := "Int"
		if kindOf(rt) == kBool {
			rs = "Bool"
		}
		name := smtName("U$" + sd.Name)
		if !tr.sc.declared[name] {
			tr.sc.declare(name, strings.TrimSpace(sig)+") "+rs)
			// an abstract function that reads no heap denotes the same value throughout the call: a reference it returns is an
			// object that already existed at entry (typing fact for pointer-valued abstract functions)
			if len(sd.Reads) == 0 && rs == "Int" && isPointer(rt) {
				var bs, as []string
				for i, srt := range sigArgSorts(strings.TrimSpace(sig) + ") " + rs) {
					v := fmt.Sprintf("u%d", i)
					bs = append(bs, "("+v+" "+srt+")")
					as = append(as, v)
				}
				app := "(" + name + " " + strings.Join(as, " ") + ")"
				if len(as) == 0 {
					tr.sc.fact(fmt.Sprintf("(and (<= 0 %s) (< %s |top@0|))", name, name))
				} else {
					tr.sc.fact(fmt.Sprintf("(forall (%s) (! (and (<= 0 %s) (< %s |top@0|)) :pattern (%s)))", strings.Join(bs, " "), app, app, app))
				}
			}
		}
		tr.emitAxioms()
		term := "(" + name + " " + strings.Join(ts, " ") + ")"
		if len(ts) == 0 {
			term = name
		}
		if sd.Ret.Name == "int" && !sd.Ret.Ptr {
			rt = nil
		}
		return Sc{T: term, Bool: rs == "Bool"}, rt
	}
	tr.lemmaDepth++
	defer func() { tr.lemmaDepth-- }()
	if tr.lemmaDepth > 40 {
		panic(subsetErr("spec recursion too deep (recursive spec?) at " + sd.Name))
	}
	var subst [][2]string
	for i, a := range argEs {
		v, t := tr.evalC(env, a)
		pt := tr.resolveCType(penv, sd.Params[i].Typ)
		if sd.Params[i].Typ.Name == "int" && !sd.Params[i].Typ.Ptr && !sd.Params[i].Typ.Slice {
			pt = nil
		}
		if pt != nil {
			k := kindOf(pt)
			if k != kStruct && k != kArray {
				v = tr.rval(env, v, t)
			}
			t = pt
		}
		// compound scalar arguments are passed as placeholders and substituted back afterwards, so that counting
		// predicates inside the spec body get a canonical shape (see cntSym)
		if sc, ok := v.(Sc); ok && (strings.HasPrefix(sc.T, "(") || (sd.Opaque && isLiteral(sc.T))) {
			tr.fresh++
			ph := smtName(fmt.Sprintf("%s?%d", sd.Params[i].Name, tr.fresh))
			subst = append(subst, [2]string{ph, sc.T})
			v = Sc{T: ph, Bool: sc.Bool}
		} else if sl, ok := v.(Sl); ok && sd.Opaque {
			// slice arguments of opaque specs: each compound component becomes a placeholder, so that the hidden function
			// has the same signature whatever the shape of the actual argument
			hold := func(c, tag string) string {
				if !strings.HasPrefix(c, "(") && !isLiteral(c) {
					return c
				}
				tr.fresh++
				ph := smtName(fmt.Sprintf("%s.%s?%d", sd.Params[i].Name, tag, tr.fresh))
				subst = append(subst, [2]string{ph, c})
				return ph
			}
			v = Sl{Arr: hold(sl.Arr, "arr"), Off: hold(sl.Off, "off"), Len: hold(sl.Len, "len"), Cap: hold(sl.Cap, "cap")}
		}
		penv.vars[sd.Params[i].Name] = EV{V: v, T: t}
	}
	v, t := tr.evalC(penv, sd.Body)
	tr.pendingOpaque = nil
	if sd.Opaque {
		v = tr.opaqueAtom(sd, v)
	}
	pend := tr.pendingOpaque
	tr.pendingOpaque = nil
	for k := len(subst) - 1; k >= 0; k-- {
		v = substValue(v, subst[k][0], subst[k][1])
		if pend != nil {
			pend.atom = strings.ReplaceAll(pend.atom, subst[k][0], subst[k][1])
			for i := range pend.args {
				pend.args[i] = strings.ReplaceAll(pend.args[i], subst[k][0], subst[k][1])
			}
		}
	}
	if pend != nil {
		tr.relateOpaque(pend.sd, pend.fn, pend.args, pend.atom, pend.bool_)
	}
	if sd.Ret.Name != "" {
		rt := tr.resolveCType(penv, sd.Ret)
		if !(sd.Ret.Name == "int" && !sd.Ret.Ptr && !sd.Ret.Slice) {
			t = rt
		}
	}
	return v, t
}

// emitAxioms asserts the (trusted) axioms of the contract files once per function translation,
// the first time an uninterpreted spec function is used.
func (tr *Tr) emitAxioms() {
	if tr.axiomsDone {
		return
	}
	tr.axiomsDone = true
	for _, ax := range tr.g.contracts.Axioms {
		env := &CEnv{vars: map[string]EV{}, st: &State{vars: map[string]Value{}, top: "0", guard: "true"}, pkg: tr.g.pkgOfFile(ax.File)}
		env.old = env.st
		tr.specMode++
		f := tr.evalBool(env, ax.Expr)
		tr.specMode--
		tr.sc.fact(f)
		tr.assumptions["axiom "+ax.Label+": "+ax.Src] = true
	}
}

// evalCnt: cnt(m, k :: P(k)) = number of keys k of map m satisfying P.
func (tr *Tr) evalCnt(env *CEnv, x *CCall) Value {
	mv, mt0 := tr.evalC(env, x.Args[0])
	mt, ok := mt0.Underlying().(*types.Map)
	if !ok {
		panic(subsetErr("cnt() on non-map"))
	}
	m := tr.asSc(tr.rval(env, mv, mt0), mt0).T
	tr.nilMapFacts(env.st, mt, m)
	lam, ok := x.Args[1].(*CLambda)
	if !ok {
		panic(subsetErr("cnt(m, k :: P) expected"))
	}
	dom := sSel(tr.mapDom(env.st, mt), m)
	n := sSel(tr.mapLen(env.st, mt), m)
	body := tr.evalBool(env.with(lam.Var, EV{V: Sc{T: cntBound}, T: mt.Key()}), lam.Body)
	domA, bodyA := dom, body
	tr.abstractMapRef(m, &domA, &bodyA)
	return Sc{T: tr.cntSym(domA, n, bodyA)}
}

var boundVarRe = regexp.MustCompile(`\|[A-Za-z_0-9]+\?[0-9]+\|`)

// cntParams lists, in order of first occurrence, the parameters of a counting predicate: quantifier-bound variables /
// spec placeholders (contain '?') and declared scalar constants. Arrays and function symbols stay part of the key.
type cntParam struct {
	tok    string
	bound  bool
	sort   string
	actual string // term passed as argument (differs from tok for the abstracted map reference)
}

const mrefTok = "|mref#|"

// abstractMapRef replaces a compound map-reference term by a placeholder in the given strings, so that counting
// symbols are functions of the map reference (semantically equal references then give equal counts by congruence).
func (tr *Tr) abstractMapRef(m string, strs ...*string) {
	tr.curMref = ""
	if !strings.HasPrefix(m, "(") {
		return
	}
	tr.curMref = m
	for _, s := range strs {
		*s = strings.ReplaceAll(*s, m, mrefTok)
	}
}

var quotedSymRe = regexp.MustCompile(`\|[^|]+\|`)

func (tr *Tr) cntParams(terms ...string) []cntParam {
	seen := map[string]bool{}
	var out []cntParam
	for _, t := range terms {
		for _, m := range quotedSymRe.FindAllString(t, -1) {
			if m == cntBound || seen[m] {
				continue
			}
			seen[m] = true
			if m == mrefTok {
				out = append(out, cntParam{m, false, "Int", tr.curMref})
				continue
			}
			if strings.Contains(m, "?") {
				out = append(out, cntParam{m, true, "Int", m})
				continue
			}
			switch tr.sc.sigs[m] {
			case "() Int":
				out = append(out, cntParam{m, false, "Int", m})
			case "() Bool":
				out = append(out, cntParam{m, false, "Bool", m})
			}
		}
	}
	return out
}

func boundVarsOf(terms ...string) []string {
	seen := map[string]bool{}
	var out []string
	for _, t := range terms {
		for _, m := range boundVarRe.FindAllString(t, -1) {
			if m != cntBound && !seen[m] {
				seen[m] = true
				out = append(out, m)
			}
		}
	}
	return out
}

func canon(s string, ps []cntParam) string {
	for i, p := range ps {
		s = strings.ReplaceAll(s, p.tok, fmt.Sprintf("|bv?%d|", i))
	}
	return s
}

// cntSym returns the term for the number of keys k in dom with body(k): an application of an uninterpreted
// function (one per predicate shape) to the predicate's parameters.
func (tr *Tr) cntSym(dom, n, body string) string {
	ps := tr.cntParams(dom, body)
	ckey := canon(dom+"|"+body, ps)
	s, ok := tr.cntSyms[ckey]
	if !ok {
		tr.fresh++
		s = smtName(fmt.Sprintf("cnt!%d", tr.fresh))
		sig := "("
		for _, p := range ps {
			sig += p.sort + " "
		}
		tr.sc.declare(s, strings.TrimSpace(sig)+") Int")
		tr.cntSyms[ckey] = s
		tr.assumptions["A-count: finite counts are independent of the enumeration order (engine axiom)"] = true
	}
	if len(ps) == 0 {
		return s
	}
	var as []string
	for _, p := range ps {
		as = append(as, p.actual)
	}
	app := "(" + s + " " + strings.Join(as, " ") + ")"
	if len(boundVarsOf(app)) == 0 {
		tr.sc.fact(fmt.Sprintf("(and (<= 0 %s) (<= %s %s))", app, app, n))
		// A-count-witness: a key with the property makes the count at least one, two different such keys at least two
		// (elementary counting facts, stated per counting term)
		wkey := "cntwit|" + app + "|" + dom + "|" + body
		if !tr.typeFactDone[wkey] && tr.specMode == 0 || !tr.typeFactDone[wkey] && !strings.Contains(dom+body, "?") {
			tr.typeFactDone[wkey] = true
			inst := func(x string) string {
				for _, p := range ps {
					if !p.bound && p.tok != p.actual {
						x = strings.ReplaceAll(x, p.tok, p.actual)
					}
				}
				return x
			}
			d, b := inst(dom), inst(body)
			if len(boundVarsOf(d, b)) == 0 {
				at := func(v string) string { return sAnd("(select "+d+" "+v+")", strings.ReplaceAll(b, cntBound, v)) }
				tr.sc.fact(fmt.Sprintf("(forall ((wa Int)) (! (=> %s (>= %s 1)) :pattern ((select %s wa))))", at("wa"), app, d))
				tr.sc.fact(fmt.Sprintf("(forall ((wa Int) (wb Int)) (! (=> (and (not (= wa wb)) %s %s) (>= %s 2)) :pattern ((select %s wa) (select %s wb))))", at("wa"), at("wb"), app, d, d))
				tr.assumptions["A-count-witness: a key with the property makes the count >= 1, two different ones >= 2 (engine axiom)"] = true
			}
		}
	}
	return app
}

// evalCntSoFar: cntsofar(k :: P(k)) inside an invariant of a range-over-map loop: number of already visited keys with P.
func (tr *Tr) evalCntSoFar(env *CEnv, x *CCall) Value {
	if env.loop == nil || env.loop.enum == nil {
		panic(subsetErr("cntsofar() outside a range-over-map loop invariant"))
	}
	e := env.loop.enum
	lam, ok := x.Args[0].(*CLambda)
	if !ok {
		panic(subsetErr("cntsofar(k :: P) expected"))
	}
	body := tr.evalBool(env.with(lam.Var, EV{V: Sc{T: cntBound}, T: e.mtyp.Key()}), lam.Body)
	if strings.Contains(e.dom, "?") {
		panic(subsetErr("cntsofar over a map that depends on a bound variable"))
	}
	domA, bodyA := e.dom, body
	tr.abstractMapRef(e.mref, &domA, &bodyA)
	total := tr.cntSym(domA, e.n, bodyA)
	ps := tr.cntParams(domA, bodyA)
	body = strings.ReplaceAll(bodyA, mrefTok, e.mref)
	pcKey := fmt.Sprintf("pc|%d|%s", e.id, canon(bodyA, ps))
	pc, ok := tr.cntSyms[pcKey]
	var qv string
	var args []string
	for _, p := range ps {
		args = append(args, p.actual)
		if p.bound {
			qv += " (" + p.tok + " " + p.sort + ")"
		}
	}
	pcAt := func(i string) string { return "(" + pc + " " + strings.TrimSpace(i+" "+strings.Join(args, " ")) + ")" }
	if !ok {
		tr.fresh++
		pc = smtName(fmt.Sprintf("pc!%d!%d", e.id, tr.fresh))
		tr.cntSyms[pcKey] = pc
		sig := "(Int"
		for _, p := range ps {
			sig += " " + p.sort
		}
		tr.sc.declare(pc, sig+") Int")
		at := func(i string) string { return strings.ReplaceAll(body, cntBound, "("+e.pick+" "+i+")") }
		wrap := func(f string) string {
			if qv == "" {
				return f
			}
			return "(forall (" + strings.TrimSpace(qv) + ") " + f + ")"
		}
		// recursive definition of the partial count along this enumeration (bound parameters quantified, constants fixed)
		tr.sc.fact(wrap(fmt.Sprintf("(= %s 0)", pcAt("0"))))
		tr.sc.fact(fmt.Sprintf("(forall ((i Int)%s) (! (=> (> i 0) (= %s (+ %s (ite %s 1 0)))) :pattern (%s)))", qv, pcAt("i"), pcAt("(- i 1)"), at("(- i 1)"), pcAt("i")))
		// derived by induction from the recursive definition (not proved in SMT): 0 <= pc(i) <= i
		tr.sc.fact(fmt.Sprintf("(forall ((i Int)%s) (! (=> (>= i 0) (and (<= 0 %s) (<= %s i))) :pattern (%s)))", qv, pcAt("i"), pcAt("i"), pcAt("i")))
		// A-count: the count along this enumeration, taken to the end, is the count of the set
		if qv == "" {
			tr.sc.fact(fmt.Sprintf("(= %s %s)", pcAt(e.n), total))
		} else {
			tr.sc.fact(fmt.Sprintf("(forall (%s) (! (= %s %s) :pattern (%s) :pattern (%s)))", strings.TrimSpace(qv), pcAt(e.n), total, pcAt(e.n), total))
		}
	}
	it := env.st.vars[e.counter].(Sc).T
	return Sc{T: pcAt(it)}
}

func substValue(v Value, from, to string) Value {
	r := func(s string) string { return strings.ReplaceAll(s, from, to) }
	switch x := v.(type) {
	case Sc:
		return Sc{T: r(x.T), Bool: x.Bool}
	case Sl:
		return Sl{r(x.Arr), r(x.Off), r(x.Len), r(x.Cap)}
	case If:
		return If{r(x.Tag), r(x.Val)}
	case St:
		out := St{F: make([]Value, len(x.F))}
		for i := range x.F {
			out.F[i] = substValue(x.F[i], from, to)
		}
		return out
	case LocV:
		x.L.Ref, x.L.Idx = r(x.L.Ref), r(x.L.Idx)
		return x
	}
	return v
}

// opaqueAtom hides the definition of an opaque spec function behind an uninterpreted function applied to everything the
// definition depends on: heap versions and scalar symbols (fixed dependencies) and quantifier-bound variables / argument
// placeholders (parameters). Functions that list the spec in a "reveal" clause get the defining equation as a fact,
// quantified over the parameters with the application as trigger; all others can only pass applications along (an
// application is preserved exactly when none of its dependencies changes). Because the quantified variable is a plain
// argument of the application, quantified contracts over logical indexes get a trigger that needs no arithmetic.
func (tr *Tr) opaqueAtom(sd *SpecDef, v Value) Value {
	sc, ok := v.(Sc)
	if !ok {
		panic(subsetErr("opaque spec must be scalar-valued: " + sd.Name))
	}
	f := sc.T
	seen := map[string]bool{}
	var args, sorts, params []string
	for _, m := range quotedSymRe.FindAllString(f, -1) {
		if seen[m] || m == cntBound {
			continue
		}
		seen[m] = true
		if strings.Contains(m, "?") {
			if strings.Contains(f, "("+m+" Int)") || strings.Contains(f, "("+m+" Bool)") || strings.Contains(f, "("+m+" (Array") {
				continue // bound inside the definition itself
			}
			args = append(args, m)
			sorts = append(sorts, "Int")
			params = append(params, m)
			continue
		}
		sig, declared := tr.sc.sigs[m]
		if !declared || !strings.HasPrefix(sig, "() ") {
			continue // function symbols stay part of the shape
		}
		args = append(args, m)
		sorts = append(sorts, strings.TrimPrefix(sig, "() "))
	}
	shape := f
	for i, a := range args {
		shape = strings.ReplaceAll(shape, a, fmt.Sprintf("|dep#%d|", i))
	}
	// local quantifier ids and binder names carry fresh numbers: normalise them
	shape = qidRe.ReplaceAllString(shape, ":qid Q_")
	shape = binderNumRe.ReplaceAllString(shape, "?|")
	rs := "Int"
	if sc.Bool {
		rs = "Bool"
	}
	key := "opaque|" + sd.Name + "|" + strings.Join(sorts, ",") + "|" + rs + "|" + shape
	fn, ok := tr.cntSyms[key]
	if !ok {
		tr.fresh++
		fn = smtName(fmt.Sprintf("OP$%s!%d", sd.Name, tr.fresh))
		tr.sc.declare(fn, "("+strings.Join(sorts, " ")+") "+rs)
		tr.cntSyms[key] = fn
		ft, fok := tr.footprintTemplate(shape, len(args))
		tr.footTemplates[fn] = footTemplate{foot: ft, ok: fok}
	}
	atom := fn
	if len(args) > 0 {
		atom = "(" + fn + " " + strings.Join(args, " ") + ")"
	}
	tr.pendingOpaque = &opaqueInst{args: append([]string(nil), args...), atom: atom, sd: sd, bool_: sc.Bool, fn: fn}
	if tr.revealed[sd.Name] {
		generic := atom
		for i, p := range params {
			generic = strings.ReplaceAll(generic, p, fmt.Sprintf("|par#%d|", i))
		}
		// the defining equation only matters where this application (these heap versions) can occur: emitted once per
		// top-level block and sliced away for obligations that block cannot reach
		rk := fmt.Sprintf("reveal|%d|%s", tr.sc.curBlock, generic)
		if !tr.typeFactDone[rk] {
			tr.typeFactDone[rk] = true
			if len(params) == 0 {
				tr.sc.factLocal(sEq(atom, f))
			} else {
				var bs []string
				for _, p := range params {
					bs = append(bs, "("+p+" Int)")
				}
				tr.sc.factLocal(fmt.Sprintf("(forall (%s) (! (= %s %s) :pattern (%s)))", strings.Join(bs, " "), atom, f, atom))
			}
		}
	}
	return Sc{T: atom, Bool: sc.Bool}
}

var qidRe = regexp.MustCompile(`:qid Q[0-9]+_`)
var binderNumRe = regexp.MustCompile(`\?[0-9]+\|`)

// relateOpaque implements stability of opaque specs under allocation: if an earlier application of the same opaque
// function has the same scalar arguments and each heap argument of the new application extends the earlier one only by
// writes to objects allocated later (store chains at fresh references, allocation-only effects of callees), then the
// earlier application implies (equals, for non-Boolean specs) the new one. This is justified by the lemma stable.<name>,
// which the engine proves separately with the definition revealed (obligation kind "stable").
func (tr *Tr) relateOpaque(sd *SpecDef, fn string, args []string, atom string, isBool bool) {
	if tr.lemmaProof {
		return
	}
	if strings.Contains(atom, "?") {
		// applications under a binder: only the heap arguments matter for the (quantified) stability relation
		args = append([]string(nil), args...)
		srt := sigArgSorts(tr.sc.sigs[fn])
		for i := range args {
			if i < len(srt) && !strings.HasPrefix(srt[i], "(Array") && !strings.HasPrefix(args[i], "|top") {
				args[i] = "_"
			}
		}
		atom = "(" + fn + " " + strings.Join(args, " ") + ")"
	}
	insts := tr.opaqueAtoms[fn]
	known := false
	for _, old := range insts {
		if old.atom == atom {
			// registered already: if by this function, the relations have been emitted; if by a state merge (under one
			// incoming guard only), the unguarded lineage relations below are still due
			if old.related {
				return
			}
			known = true
		}
	}
	register := func() {
		if known {
			for k := range tr.opaqueAtoms[fn] {
				if tr.opaqueAtoms[fn][k].atom == atom {
					tr.opaqueAtoms[fn][k].related = true
				}
			}
			return
		}
		tr.opaqueAtoms[fn] = append(tr.opaqueAtoms[fn], opaqueInst{fn: fn, args: args, atom: atom, sd: sd, bool_: isBool, related: true})
	}
	sorts := sigArgSorts(tr.sc.sigs[fn])
	if len(sorts) != len(args) {
		register()
		return
	}
	isHeap := func(i int) bool { return strings.HasPrefix(sorts[i], "(Array") }
	// relate(older, newer): if every heap argument of newer extends the corresponding one of older by allocation only,
	// the older application implies (equals) the newer one
	relate := func(oargs0, nargs0 []string) {
		related, differs := true, false
		var topConds []string
		for i := range nargs0 {
			if !isHeap(i) {
				if strings.HasPrefix(nargs0[i], "|top") && strings.HasPrefix(oargs0[i], "|top") && nargs0[i] != oargs0[i] {
					// allocation counters: the stability lemma is proved for any later counter value
					topConds = append(topConds, sLe(oargs0[i], nargs0[i]))
					differs = true
				}
				continue
			}
			if nargs0[i] == oargs0[i] {
				continue
			}
			differs = true
			// is oargs0[i] an ancestor of nargs0[i] in the allocation-extension lineage?
			cur, ok := nargs0[i], false
			for hops := 0; hops < 200; hops++ {
				p, has := tr.allocParent[cur]
				if !has {
					break
				}
				if p == oargs0[i] {
					ok = true
					break
				}
				cur = p
			}
			if !ok {
				related = false
				break
			}
		}
		if !related || !differs {
			return
		}
		// the relation holds for all values of the scalar arguments: quantify over them (except allocation counters)
		var binders, nargs, oargs []string
		for i := range nargs0 {
			if isHeap(i) || strings.HasPrefix(nargs0[i], "|top") {
				nargs = append(nargs, nargs0[i])
				oargs = append(oargs, oargs0[i])
				continue
			}
			v := fmt.Sprintf("|s?%d|", i)
			binders = append(binders, "("+v+" "+sorts[i]+")")
			nargs = append(nargs, v)
			oargs = append(oargs, v)
		}
		key := "stab|" + fn + "|" + strings.Join(nargs, " ") + "|" + strings.Join(oargs, " ")
		if tr.typeFactDone[key] {
			return
		}
		tr.typeFactDone[key] = true
		na := "(" + fn + " " + strings.Join(nargs, " ") + ")"
		oa := "(" + fn + " " + strings.Join(oargs, " ") + ")"
		var body string
		if isBool {
			body = sImp(sAnd(append(topConds, oa)...), na)
		} else {
			body = sImp(sAnd(topConds...), sEq(oa, na))
		}
		if len(binders) > 0 {
			tr.fresh++
			body = fmt.Sprintf("(forall (%s) (! %s :pattern (%s) :pattern (%s) :qid ST%d))", strings.Join(binders, " "), body, na, oa, tr.fresh)
		}
		tr.sc.fact(body)
		tr.stableUsed[sd.Name] = true
		tr.assumptions["stability of opaque spec "+sd.Name+" under allocation (lemma stable."+sd.Name+", proved by the engine)"] = true
	}
	for _, old := range insts {
		if len(old.args) != len(args) || old.atom == atom {
			continue
		}
		relate(old.args, args)
		relate(args, old.args) // the new application may speak about an older state than a known one (old(...) in a postcondition)
	}
	register()
}

// sigArgSorts splits "(S1 S2 ...) R" into its argument sorts.
func sigArgSorts(sig string) []string {
	sig = strings.TrimSpace(sig)
	if !strings.HasPrefix(sig, "(") {
		return nil
	}
	d, start := 0, -1
	var out []string
	for i := 0; i < len(sig); i++ {
		switch sig[i] {
		case '(':
			d++
			if d == 2 {
				start = i
			}
		case ')':
			d--
			if d == 1 && start >= 0 {
				out = append(out, sig[start:i+1])
				start = -1
			}
			if d == 0 {
				return out
			}
		case ' ':
		default:
			if d == 1 {
				j := i
				for j < len(sig) && sig[j] != ' ' && sig[j] != ')' {
					j++
				}
				out = append(out, sig[i:j])
				i = j - 1
			}
		}
	}
	return out
}

func (tr *Tr) oldStateOr(env *CEnv) *State {
	if tr.oldState != nil {
		return tr.oldState
	}
	return env.old
}
