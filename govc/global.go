package main

import (
	"fmt"
	"go/types"
	"os"
	"path/filepath"
	"regexp"
	"sort"
	"strings"

	"golang.org/x/tools/go/packages"
	"golang.org/x/tools/go/ssa"
	"golang.org/x/tools/go/ssa/ssautil"
)

type Global struct {
	trustedEffects map[string]bool // trusted/external contracts whose declared write effects entered a mod-set
	prog           *ssa.Program
	pkgs           []*packages.Package
	spkgs          map[string]*ssa.Package // by package name
	tpkgs          map[string]*types.Package
	contracts      *Contracts
	funcs          map[string]*ssa.Function
	typeTags       map[string]int
	tagTypes       map[int]types.Type
	strIDs         map[string]int
	filePkg        map[string]string // contract file (dir/base) -> package name
	modsets        map[*ssa.Function]map[string]modInfo
	modBusy        map[*ssa.Function]bool
	busyHits       int
	modDepth       int
	modChanged     bool
	modRoundSeen   map[*ssa.Function]bool
	modProv        map[*ssa.Function]map[string]modInfo
	fnKeyIDs       map[string]int
	idKeys         []string
	heapKinds      map[string]string
	repo           string
	fnIDs          map[*ssa.Function]int
}

var repoPkgs = []string{".", "./quorum", "./tracker", "./confchange", "./raftpb"}

func loadGlobal(repo string, contractFiles []string) (*Global, error) {
	os.Setenv("PATH", "/opt/veriftools/go1.26.8/bin:"+os.Getenv("PATH"))
	cfg := &packages.Config{Mode: packages.LoadAllSyntax, Dir: repo, BuildFlags: []string{"-tags=verif"},
		Env: append(os.Environ(), "GOFLAGS=-mod=mod", "GOPROXY=off", "GOSUMDB=off", "GOTOOLCHAIN=local")}
	pkgs, err := packages.Load(cfg, repoPkgs...)
	if err != nil {
		return nil, err
	}
	nerr := 0
	packages.Visit(pkgs, nil, func(p *packages.Package) {
		for _, e := range p.Errors {
			fmt.Fprintf(os.Stderr, "load error: %v\n", e)
			nerr++
		}
	})
	if nerr > 0 {
		return nil, fmt.Errorf("%d package load errors", nerr)
	}
	prog, spkgs := ssautil.AllPackages(pkgs, ssa.InstantiateGenerics|ssa.GlobalDebug)
	prog.Build()
	g := &Global{prog: prog, pkgs: pkgs, spkgs: map[string]*ssa.Package{}, tpkgs: map[string]*types.Package{}, funcs: map[string]*ssa.Function{},
		typeTags: map[string]int{}, tagTypes: map[int]types.Type{}, strIDs: map[string]int{}, filePkg: map[string]string{},
		modsets: map[*ssa.Function]map[string]modInfo{}, modBusy: map[*ssa.Function]bool{}, repo: repo, fnIDs: map[*ssa.Function]int{}}
	for _, sp := range spkgs {
		if sp != nil {
			g.spkgs[sp.Pkg.Name()] = sp
		}
	}
	for _, p := range prog.AllPackages() {
		if _, dup := g.tpkgs[p.Pkg.Name()]; !dup {
			g.tpkgs[p.Pkg.Name()] = p.Pkg
		}
	}
	// our packages win name clashes
	for _, sp := range spkgs {
		if sp != nil {
			g.tpkgs[sp.Pkg.Name()] = sp.Pkg
		}
	}
	g.tpkgs["pb"] = g.tpkgs["raftpb"]
	// index functions
	for fn := range ssautil.AllFunctions(prog) {
		k := g.funcKey(fn)
		if old, dup := g.funcs[k]; dup {
			// prefer non-synthetic
			if old.Synthetic == "" {
				continue
			}
		}
		g.funcs[k] = fn
	}
	cs, err := LoadContracts(contractFiles)
	if err != nil {
		return nil, err
	}
	g.contracts = cs
	for _, f := range contractFiles {
		data, err := os.ReadFile(f)
		if err != nil {
			return nil, err
		}
		base := filepath.Base(filepath.Dir(f)) + "/" + filepath.Base(f)
		for _, line := range strings.Split(string(data), "\n") {
			if strings.HasPrefix(line, "package ") {
				g.filePkg[base] = strings.TrimSpace(strings.TrimPrefix(line, "package "))
				break
			}
		}
	}
	return g, nil
}

func (g *Global) pkgOfFile(file string) *types.Package {
	if n, ok := g.filePkg[file]; ok {
		return g.tpkgs[n]
	}
	return nil
}

func (g *Global) pkgByName(from *types.Package, name string) *types.Package {
	if from != nil {
		for _, imp := range from.Imports() {
			if imp.Name() == name {
				return imp
			}
		}
		// import aliases used in the repo
		if name == "pb" {
			return g.tpkgs["raftpb"]
		}
	}
	return g.tpkgs[name]
}

func (g *Global) contractPkg(key string, f *ssa.Function) *types.Package {
	if fc := g.contracts.Funcs[key]; fc != nil {
		if p := g.pkgOfFile(fc.File); p != nil && (f == nil || f.Pkg == nil || !g.isRepoPkg(f.Pkg.Pkg)) {
			return p
		}
	}
	if f != nil {
		if f.Pkg != nil {
			return f.Pkg.Pkg
		}
		if o := f.Origin(); o != nil && o.Pkg != nil {
			return o.Pkg.Pkg
		}
	}
	if fc := g.contracts.Funcs[key]; fc != nil {
		return g.pkgOfFile(fc.File)
	}
	return nil
}

func (g *Global) isRepoPkg(p *types.Package) bool {
	return strings.HasPrefix(p.Path(), "go.etcd.io/raft/v3")
}

// funcKey: pkg.Func, pkg.Type.Method, pkg.Outer$1 for closures.
func (g *Global) funcKey(f *ssa.Function) string {
	if f.Parent() != nil {
		return g.funcKey(f.Parent()) + "$" + strings.TrimPrefix(f.Name(), f.Parent().Name()+"$")
	}
	o := f
	if f.Origin() != nil {
		o = f.Origin()
	}
	pkg := ""
	if o.Pkg != nil {
		pkg = o.Pkg.Pkg.Name()
	} else if o.Object() != nil && o.Object().Pkg() != nil {
		pkg = o.Object().Pkg().Name()
	}
	name := o.Name()
	if recv := o.Signature.Recv(); recv != nil {
		rt := recv.Type()
		if p, ok := rt.(*types.Pointer); ok {
			rt = p.Elem()
		}
		if n, ok := rt.(*types.Named); ok {
			tn := n.Obj().Name()
			if n.Obj().Pkg() != nil {
				pkg = n.Obj().Pkg().Name()
			}
			return pkg + "." + tn + "." + name
		}
		return pkg + "." + typeKey(rt) + "." + name
	}
	if strings.Contains(f.Synthetic, "wrapper") || strings.Contains(f.Synthetic, "thunk") || strings.Contains(f.Synthetic, "bound") {
		return pkg + "." + name + "#" + f.Synthetic
	}
	return pkg + "." + name
}

func (g *Global) typeTag(t types.Type) int {
	k := typeKey(t)
	if n, ok := g.typeTags[k]; ok {
		return n
	}
	n := len(g.typeTags) + 1
	g.typeTags[k] = n
	g.tagTypes[n] = t
	return n
}

func (g *Global) typeByName(name string) types.Type {
	ptr := strings.HasPrefix(name, "*")
	name = strings.TrimPrefix(name, "*")
	parts := strings.SplitN(name, ".", 2)
	if len(parts) != 2 {
		panic(subsetErr("typeByName: " + name))
	}
	p := g.tpkgs[parts[0]]
	if p == nil {
		panic(subsetErr("typeByName: unknown package " + parts[0]))
	}
	obj := p.Scope().Lookup(parts[1])
	if obj == nil {
		panic(subsetErr("typeByName: unknown type " + name))
	}
	t := obj.Type()
	if ptr {
		t = types.NewPointer(t)
	}
	return t
}

func (g *Global) typeTagByName(name string) int { return g.typeTag(g.typeByName(name)) }

func (g *Global) stringConst(tr *Tr, s string) string {
	id, ok := g.strIDs[s]
	if !ok {
		id = len(g.strIDs) + 1
		g.strIDs[s] = id
	}
	// string constants are small positive ids; their length is known
	term := fmt.Sprint(id)
	key := "strlen:" + term
	if !tr.typeFactDone[key] {
		tr.typeFactDone[key] = true
		tr.sc.declare("|strlen|", "(Int) Int")
		tr.sc.fact(fmt.Sprintf("(= (|strlen| %s) %d)", term, len(s)))
	}
	return term
}

func (g *Global) strlen(tr *Tr, s string) string {
	tr.sc.declare("|strlen|", "(Int) Int")
	t := "(|strlen| " + s + ")"
	key := "strlen>=0:" + s
	if !tr.typeFactDone[key] {
		tr.typeFactDone[key] = true
		tr.sc.fact(sLe("0", t))
	}
	return t
}

func (g *Global) opaqueFn(tr *Tr, name string, args ...string) string {
	fn := smtName("opaque$" + name)
	sig := "(" + strings.TrimSpace(strings.Repeat("Int ", len(args))) + ") Int"
	tr.sc.declare(fn, sig)
	t := "(" + fn + " " + strings.Join(args, " ") + ")"
	key := "opq:" + t
	if !tr.typeFactDone[key] {
		tr.typeFactDone[key] = true
		tr.sc.fact(sLe("0", t))
	}
	return t
}

// boxFn packs the leaves of a composite value into an interface payload (injective via unbox functions).
func (g *Global) boxFn(tr *Tr, tkey string, leaves []string, lfs []leaf) string {
	fn := smtName("box$" + tkey)
	sig := "("
	for _, lf := range lfs {
		sig += lf.sort.String() + " "
	}
	sig = strings.TrimSpace(sig) + ") Int"
	tr.sc.declare(fn, sig)
	t := "(" + fn + " " + strings.Join(leaves, " ") + ")"
	if len(leaves) == 0 {
		t = fn
	}
	for i, lf := range lfs {
		un := smtName(fmt.Sprintf("unbox$%s$%d", tkey, i))
		tr.sc.declare(un, "(Int) "+lf.sort.String())
		tr.sc.fact(sEq("("+un+" "+t+")", leaves[i]))
	}
	return t
}

func (g *Global) unboxFn(tr *Tr, tkey string, payload string, lfs []leaf) []string {
	var out []string
	for i, lf := range lfs {
		un := smtName(fmt.Sprintf("unbox$%s$%d", tkey, i))
		tr.sc.declare(un, "(Int) "+lf.sort.String())
		out = append(out, "("+un+" "+payload+")")
	}
	return out
}

// funcIDByKey: function values are identified by the source-level function (a bound method value x.m and the method m
// itself share the identity).
func (g *Global) funcIDByKey(key string, f *ssa.Function) string {
	if i := strings.Index(key, "#"); i >= 0 {
		key = key[:i]
	}
	if g.fnKeyIDs == nil {
		g.fnKeyIDs = map[string]int{}
	}
	id, ok := g.fnKeyIDs[key]
	if !ok {
		id = len(g.fnKeyIDs) + 1
		g.fnKeyIDs[key] = id
	}
	return fmt.Sprint(id)
}

func (g *Global) funcID(tr *Tr, fv *FnV) string {
	key := g.funcKey(fv.Fn)
	if strings.Contains(fv.Fn.Synthetic, "bound method") {
		// funcKey of the wrapper: pkg.Type.m#bound method wrapper ...; strip to the method
		if fv.Fn.Object() != nil {
			if fn, ok := fv.Fn.Object().(*types.Func); ok {
				if rf := g.prog.FuncValue(fn); rf != nil {
					key = g.funcKey(rf)
				}
			}
		}
	}
	_ = key
	id, ok := g.fnIDs[fv.Fn]
	if !ok {
		id = len(g.fnIDs) + 1
		g.fnIDs[fv.Fn] = id
	}
	if true {
		if len(fv.Bind) > 0 && !strings.Contains(fv.Fn.Synthetic, "bound method") {
			panic(subsetErr("closure with bindings stored as a value: " + fv.Fn.Name()))
		}
		return g.funcIDByKey(key, fv.Fn)
	}
	if len(fv.Bind) > 0 && !strings.Contains(fv.Fn.Synthetic, "bound method") {
		panic(subsetErr("closure with bindings stored as a value: " + fv.Fn.Name()))
	}
	// a bound method value (x.m) is identified by the method alone; the typestate invariant of the owning object
	// (wf_raft: r.tick is bound to r itself) says which receiver it is bound to
	return fmt.Sprint(id)
}

// devirt resolves an interface method when the dynamic type tag is a literal.
func (g *Global) devirt(tr *Tr, iv If, m *types.Func) *ssa.Function {
	if !isLiteral(iv.Tag) {
		return nil
	}
	var n int
	fmt.Sscan(iv.Tag, &n)
	t := g.tagTypes[n]
	if t == nil {
		return nil
	}
	ms := g.prog.MethodSets.MethodSet(t)
	sel := ms.Lookup(m.Pkg(), m.Name())
	if sel == nil {
		return nil
	}
	return g.prog.MethodValue(sel)
}

// dynCall: a call through a function value whose identity is only known symbolically (r.step). The candidates are the
// functions under contract with an identical signature whose identity is named somewhere in the contracts (funcid);
// the call site proves that the value is one of them (typestate) and continues with the merge of the candidates' contracts.
func (g *Global) dynCall(tr *Tr, fr *Frame, c *ssa.CallCommon, fv Value, args []Value, resT types.Type, st *State) Value {
	sc, ok := fv.(Sc)
	if !ok {
		panic(subsetErr("dynamic call through function value " + c.Value.Name()))
	}
	sig := c.Signature()
	type cand struct {
		key string
		f   *ssa.Function
		id  string
	}
	var cands []cand
	for _, key := range g.funcIDKeys() {
		f := g.funcs[key]
		if f == nil || f.Signature.Recv() != nil || !types.Identical(f.Signature, sig) {
			continue
		}
		if fc := g.contracts.Funcs[key]; fc == nil {
			continue
		}
		cands = append(cands, cand{key, f, g.funcIDByKey(key, f)})
	}
	if len(cands) == 0 {
		panic(subsetErr("dynamic call through function value " + c.Value.Name() + ": no candidate function under contract"))
	}
	var alts []string
	for _, cd := range cands {
		alts = append(alts, sEq(sc.T, cd.id))
	}
	tr.oblige(st, "dyncall", "", nil, sOr(alts...), "function value "+c.Value.Name()+" is one of the functions the typestate allows")
	var sts []*State
	for _, cd := range cands {
		sti := st.clone()
		sti.guard = tr.nameBool("g", sAnd(st.guard, sEq(sc.T, cd.id)))
		v := tr.callStatic(fr, cd.f, nil, args, resT, sti)
		if v != nil {
			sti.vars["$dynres"] = v
		}
		sts = append(sts, sti)
	}
	out := tr.mergeStates(sts)
	res := out.vars["$dynres"]
	delete(out.vars, "$dynres")
	st.vars, st.top, st.guard = out.vars, out.top, out.guard
	return res
}

// funcIDKeys: the functions named by funcid(...) in the contracts, in a fixed order.
func (g *Global) funcIDKeys() []string {
	if g.idKeys == nil {
		seen := map[string]bool{}
		for _, file := range g.contracts.Files {
			src, _ := os.ReadFile(file)
			for _, m := range funcidRe.FindAllStringSubmatch(string(src), -1) {
				if !seen[m[1]] {
					seen[m[1]] = true
					g.idKeys = append(g.idKeys, m[1])
				}
			}
		}
		sort.Strings(g.idKeys)
	}
	return g.idKeys
}

var funcidRe = regexp.MustCompile(`funcid\("([^"]+)"\)`)

// sortedFuncKeys returns all contract keys in order.
func (g *Global) sortedContractKeys() []string {
	var ks []string
	for k := range g.contracts.Funcs {
		ks = append(ks, k)
	}
	sort.Strings(ks)
	return ks
}

func (tr *Tr) loadGlobal(st *State, l Loc, t types.Type) Value {
	// error sentinels: distinct non-nil interface constants
	if kindOf(t) == kIface {
		if v, ok := st.vars[l.Prefix]; ok {
			return v
		}
		if v, ok := tr.initVars[l.Prefix]; ok {
			return v
		}
		id := tr.g.stringConst(tr, "global:"+l.Prefix)
		v := If{Tag: fmt.Sprint(tr.g.typeTagOfErrors()), Val: id}
		tr.initVars[l.Prefix] = v
		return v
	}
	return tr.loadAt(st, l, t)
}

func (g *Global) typeTagOfErrors() int {
	k := "*errors.errorString"
	if n, ok := g.typeTags[k]; ok {
		return n
	}
	n := len(g.typeTags) + 1
	g.typeTags[k] = n
	return n
}

// ifaceMethod finds the *types.Func of an interface method contract key "pkg.Iface.Method".
func (g *Global) ifaceMethod(key string) *types.Func {
	parts := strings.Split(key, ".")
	if len(parts) != 3 {
		panic(subsetErr("bad interface method key " + key))
	}
	p := g.tpkgs[parts[0]]
	if p == nil {
		panic(subsetErr("unknown package in " + key))
	}
	obj := p.Scope().Lookup(parts[1])
	if obj == nil {
		panic(subsetErr("unknown interface in " + key))
	}
	it, ok := obj.Type().Underlying().(*types.Interface)
	if !ok {
		panic(subsetErr(key + ": not an interface"))
	}
	for i := 0; i < it.NumMethods(); i++ {
		if it.Method(i).Name() == parts[2] {
			return it.Method(i)
		}
	}
	panic(subsetErr("unknown method in " + key))
}

func (g *Global) ifaceSig(key string) *types.Signature {
	return g.ifaceMethod(key).Type().(*types.Signature)
}

func (g *Global) ifaceParamName(key string, i int) string {
	p := g.ifaceSig(key).Params().At(i)
	if p.Name() == "" {
		return fmt.Sprintf("arg%d", i)
	}
	return p.Name()
}
