package main

import (
	"fmt"
	"go/types"
	"strings"

	"golang.org/x/tools/go/ssa"
)

// libNoEffect: library functions modelled natively, none of which writes modelled heap state.
var libNoEffect = map[string]bool{
	"fmt.Sprintf": true, "fmt.Sprint": true, "fmt.Errorf": true, "fmt.Fprintf": true, "fmt.Fprint": true, "fmt.Sprintln": true,
	"errors.New": true, "proto.Size": true, "proto.Clone": true, "binary.littleEndian.Uint64": true, "strings.Repeat": true, "strings.Join": true,
	"sync.Mutex.Lock": true, "sync.Mutex.Unlock": true, "sync.RWMutex.Lock": true, "sync.RWMutex.Unlock": true,
	"sync.RWMutex.RLock": true, "sync.RWMutex.RUnlock": true,
	"strings.Builder.String": true, "strings.Builder.WriteString": true, "strings.Builder.WriteByte": true,
	"bytes.Buffer.String": true, "bytes.Buffer.WriteString": true, "bytes.Equal": true,
	"strconv.FormatUint": true, "strconv.Itoa": true, "strconv.Quote": true,
}

// libCall handles library functions natively. Returns handled=false if key is not a native function.
func (tr *Tr) libCall(key string, f *ssa.Function, args []Value, resT types.Type, st *State) (Value, bool) {
	switch key {
	case "fmt.Sprintf", "fmt.Sprint", "fmt.Sprintln", "strings.Repeat", "strings.Join", "strings.Builder.String", "bytes.Buffer.String",
		"strconv.FormatUint", "strconv.Itoa", "strconv.Quote":
		res := tr.freshOpaque("str")
		if key == "fmt.Sprintf" && len(args) > 0 {
			// the output contains every literal character of a constant format string: it is non-empty if there is one
			if fsc, ok := args[0].(Sc); ok && isLiteral(fsc.T) {
				var id int
				fmt.Sscan(fsc.T, &id)
				for str, sid := range tr.g.strIDs {
					if sid == id {
						lit := 0
						for i := 0; i < len(str); i++ {
							if str[i] == '%' {
								i++
								for i < len(str) && strings.IndexByte("+-# 0123456789.[]*", str[i]) >= 0 {
									i++
								}
								if i < len(str) && str[i] == '%' {
									lit++
								}
								continue
							}
							lit++
						}
						if lit > 0 {
							tr.sc.fact(sLe("1", tr.g.strlen(tr, res)))
						}
					}
				}
			}
		}
		return Sc{T: res}, true
	case "bytes.Equal":
		// T-lib: equal byte slices have equal length (the contents are not modelled: the result is otherwise unspecified)
		a, b := tr.asSl(args[0]), tr.asSl(args[1])
		r := tr.freshSym("bytesEq", true)
		tr.sc.fact(sImp(r, sEq(a.Len, b.Len)))
		return Sc{T: r, Bool: true}, true
	case "fmt.Fprintf", "fmt.Fprint", "strings.Builder.WriteString", "bytes.Buffer.WriteString":
		return Tup{E: []Value{Sc{T: tr.freshOpaque("n")}, If{"0", "0"}}}, true
	case "strings.Builder.WriteByte":
		return If{"0", "0"}, true
	case "fmt.Errorf", "errors.New":
		v := tr.freshSym("err", false)
		tr.sc.fact(sLt("0", v))
		return If{Tag: fmt.Sprint(tr.g.typeTagOfErrors()), Val: v}, true
	case "sync.Mutex.Lock", "sync.Mutex.Unlock", "sync.RWMutex.Lock", "sync.RWMutex.Unlock", "sync.RWMutex.RLock", "sync.RWMutex.RUnlock":
		return nil, true
	case "proto.Size":
		iv := tr.asIf(args[0])
		return Sc{T: tr.protoSize(iv.Val)}, true
	case "proto.Clone":
		iv := tr.asIf(args[0])
		if !isLiteral(iv.Tag) {
			panic(subsetErr("proto.Clone of a message whose dynamic type is not statically known"))
		}
		var n int
		fmt.Sscan(iv.Tag, &n)
		pt, ok := tr.g.tagTypes[n].(*types.Pointer)
		if !ok {
			panic(subsetErr("proto.Clone of non-pointer message"))
		}
		tr.assumptions["T-lib proto.Clone: returns a fresh deep copy, field-wise equal (repeated message fields: same length, elements unspecified)"] = true
		return If{Tag: iv.Tag, Val: tr.cloneObj(st, pt.Elem(), iv.Val, 0)}, true
	case "slices.Sort":
		tr.libSort(f, args, st)
		return nil, true
	case "binary.littleEndian.Uint64":
		// T-lib: decoding is a function of the 8 bytes; le64(PutUint64(v)) == v
		b := tr.asSl(args[len(args)-1])
		tr.oblige(st, "bounds", "", nil, sLe("8", b.Len), "binary.LittleEndian.Uint64: slice shorter than 8 bytes")
		return Sc{T: tr.le64(st, b)}, true
	case "binary.littleEndian.PutUint64":
		b := tr.asSl(args[len(args)-2])
		v := tr.asSc(args[len(args)-1], nil).T
		tr.oblige(st, "bounds", "", nil, sLe("8", b.Len), "binary.LittleEndian.PutUint64: slice shorter than 8 bytes")
		name := "E$uint8"
		h := tr.heapVar(st, name, arr2(sortInt))
		tr.fresh++
		inner := smtName(fmt.Sprintf("put64!%d", tr.fresh))
		tr.sc.declare(inner, "() (Array Int Int)")
		tr.sc.declare("|le64|", "((Array Int Int) Int) Int")
		tr.sc.fact(fmt.Sprintf("(forall ((k Int)) (! (=> (not (and (<= %s k) (< k (+ %s 8)))) (= (select %s k) (select (select %s %s) k))) :pattern ((select %s k))))", b.Off, b.Off, inner, h, b.Arr, inner))
		tr.sc.fact(fmt.Sprintf("(= (|le64| %s %s) %s)", inner, b.Off, v))
		tr.assumptions["T-lib encoding/binary: Uint64(PutUint64(v)) == v; decoding depends only on the 8 bytes read"] = true
		sym := tr.nameTerm(name, arr2(sortInt), sStore(h, b.Arr, inner))
		if tr.freshRefs[b.Arr] {
			tr.allocParent[sym] = h
		}
		tr.setHeapVar(st, name, arr2(sortInt), sym)
		return nil, true
	}
	return nil, false
}

func (tr *Tr) freshOpaque(hint string) string {
	s := tr.freshSym(hint, false)
	tr.sc.fact(sLe("0", s))
	return s
}

// protoSize: proto.Size(m) is an uninterpreted non-negative function of the message object (T-lib assumption:
// messages are not mutated between size computations that are compared; see DESIGN §9).
func (tr *Tr) protoSize(ref string) string {
	tr.sc.declare("|psize|", "(Int) Int")
	t := "(|psize| " + ref + ")"
	key := "psize:" + t
	if !tr.typeFactDone[key] {
		tr.typeFactDone[key] = true
		tr.sc.fact(fmt.Sprintf("(and (<= 0 %s) (<= %s 2147483648))", t, t))
		tr.assumptions["T-lib proto.Size: non-negative function of the message object, <= 2^31 per message"] = true
	}
	return t
}

// libSort: slices.Sort(s) for integer element types: afterwards s is sorted and a permutation of its old contents.
func (tr *Tr) libSort(f *ssa.Function, args []Value, st *State) {
	s := tr.asSl(args[0])
	et := f.Signature.Params().At(0).Type().Underlying().(*types.Slice).Elem()
	if kindOf(et) != kInt {
		panic(subsetErr("slices.Sort on non-integer elements"))
	}
	tr.assumptions["T-lib slices.Sort: result is sorted and a permutation of the input"] = true
	name := elemPrefix(et)
	h := tr.heapVar(st, name, arr2(sortInt))
	tr.fresh++
	id := tr.fresh
	inner := smtName(fmt.Sprintf("sorted!%d", id))
	perm := smtName(fmt.Sprintf("perm!%d", id))
	pinv := smtName(fmt.Sprintf("perminv!%d", id))
	tr.sc.declare(inner, "() (Array Int Int)")
	tr.sc.declare(perm, "(Int) Int")
	tr.sc.declare(pinv, "(Int) Int")
	old := sSel(h, s.Arr)
	lo, hi := s.Off, sAdd(s.Off, s.Len)
	in := func(v string) string { return fmt.Sprintf("(and (<= %s %s) (< %s %s))", lo, v, v, hi) }
	// outside the slice window nothing changes
	tr.sc.fact(fmt.Sprintf("(forall ((k Int)) (! (=> (not %s) (= (select %s k) (select %s k))) :pattern ((select %s k))))", in("k"), inner, old, inner))
	// sorted
	tr.sc.fact(fmt.Sprintf("(forall ((i Int) (j Int)) (! (=> (and %s %s (<= i j)) (<= (select %s i) (select %s j))) :pattern ((select %s i) (select %s j))))", in("i"), in("j"), inner, inner, inner, inner))
	// permutation: new[k] = old[perm(k)], perm is a bijection of the window
	tr.sc.fact(fmt.Sprintf("(forall ((k Int)) (! (=> %s (and %s (= (select %s k) (select %s (%s k))) (= (%s (%s k)) k))) :pattern ((select %s k)) :pattern ((%s k))))", in("k"), in("("+perm+" k)"), inner, old, perm, pinv, perm, inner, perm))
	tr.sc.fact(fmt.Sprintf("(forall ((k Int)) (! (=> %s (and %s (= (%s (%s k)) k))) :pattern ((%s k))))", in("k"), in("("+pinv+" k)"), perm, pinv, pinv))
	// multiset preservation stated with the array-count functions (consequence of being a permutation)
	tr.arrayCountAxioms()
	for _, f := range []string{"|acntge|", "|acntgt|"} {
		tr.sc.fact(fmt.Sprintf("(forall ((v Int)) (! (= (%s %s %s %s v) (%s %s %s %s v)) :pattern ((%s %s %s %s v))))", f, inner, lo, hi, f, old, lo, hi, f, inner, lo, hi))
	}
	// L3 order statistics of the sorted window: at least hi-k elements are >= inner[k], at most hi-k-1 are > inner[k]
	tr.sc.fact(fmt.Sprintf("(forall ((k Int)) (! (=> %s (and (>= (|acntge| %s %s %s (select %s k)) (- %s k)) (<= (|acntgt| %s %s %s (select %s k)) (- (- %s k) 1)))) :pattern ((select %s k))))",
		in("k"), inner, lo, hi, inner, hi, inner, lo, hi, inner, hi, inner))
	tr.setHeapVar(st, name, arr2(sortInt), tr.nameTerm(name, arr2(sortInt), sIte(sEq(s.Len, "0"), h, sStore(h, s.Arr, inner))))
}

func isLibKey(key string) bool {
	return libNoEffect[key] || strings.HasPrefix(key, "slices.Sort")
}

// sumSize: sumsize(s, k) = sum of proto.Size over the first k elements of the slice window.
// Defined by recursion (two definitional axioms); the range fact is a consequence of psize <= 2^31 and k <= 2^31.
func (tr *Tr) sumSize(st *State, et types.Type, s Sl, k string) string {
	tr.sumSizeDecl()
	h := tr.heapVar(st, elemPrefix(et), arr2(sortInt))
	return "(|sumsz| " + sSel(h, s.Arr) + " " + s.Off + " " + k + ")"
}

func (tr *Tr) sumSizeDecl() {
	if !tr.sc.declared["|sumsz|"] {
		tr.sc.declare("|psize|", "(Int) Int")
		tr.sc.declare("|sumsz|", "((Array Int Int) Int Int) Int")
		tr.sc.fact("(forall ((a (Array Int Int)) (o Int) (k Int)) (! (=> (<= k 0) (= (|sumsz| a o k) 0)) :pattern ((|sumsz| a o k))))")
		tr.sc.fact("(forall ((a (Array Int Int)) (o Int) (k Int)) (! (=> (> k 0) (= (|sumsz| a o k) (+ (|sumsz| a o (- k 1)) (|psize| (select a (+ o (- k 1))))))) :pattern ((|sumsz| a o k))))")
		if !tr.lemmaProof {
			// consequence of lemma sum_range (proved by the engine from the two definitional axioms alone), instantiated for k <= 2^31
			tr.sc.fact("(forall ((a (Array Int Int)) (o Int) (k Int)) (! (=> (and (<= 0 k) (<= k 2147483648)) (and (<= 0 (|sumsz| a o k)) (<= (|sumsz| a o k) 4611686018427387904))) :pattern ((|sumsz| a o k))))")
		}
		tr.sc.fact("(forall ((e Int)) (! (and (<= 0 (|psize| e)) (<= (|psize| e) 2147483648)) :pattern ((|psize| e))))")
		tr.assumptions["sumsize: recursive definition of the prefix sum of proto.Size (two definitional axioms); its range fact is lemma sum_range, proved by the engine"] = true
		tr.assumptions["T-lib proto.Size: non-negative function of the message object, <= 2^31 per message"] = true
	}
}

// arrayCountAxioms declares acntge(a, lo, hi, v) = #{p in [lo,hi) : a[p] >= v} and acntgt (strict) together with the
// elementary counting lemmas used with them. These are mathematical facts about finite counting (trusted, listed):
//
//	L1 point update, L3 order statistics of a sorted window, L4 the all-zero array, range.
func (tr *Tr) arrayCountAxioms() {
	if tr.sc.declared["|acntge|"] {
		return
	}
	tr.assumptions["L-count: elementary lemmas about counting in integer arrays (point update, all-zero array, order statistics of a sorted window, permutation invariance) are engine axioms, not proved in SMT"] = true
	for _, d := range []struct{ f, cmp string }{{"|acntge|", ">="}, {"|acntgt|", ">"}} {
		f, cmp := d.f, d.cmp
		tr.sc.declare(f, "((Array Int Int) Int Int Int) Int")
		// range
		tr.sc.fact(fmt.Sprintf("(forall ((a (Array Int Int)) (lo Int) (hi Int) (v Int)) (! (and (<= 0 (%s a lo hi v)) (=> (<= lo hi) (<= (%s a lo hi v) (- hi lo)))) :pattern ((%s a lo hi v))))", f, f, f))
		// L1 point update
		tr.sc.fact(fmt.Sprintf("(forall ((a (Array Int Int)) (lo Int) (hi Int) (v Int) (i Int) (x Int)) (! (=> (and (<= lo i) (< i hi)) (= (%s (store a i x) lo hi v) (+ (- (%s a lo hi v) (ite (%s (select a i) v) 1 0)) (ite (%s x v) 1 0)))) :pattern ((%s (store a i x) lo hi v))))", f, f, cmp, cmp, f))
		// L4 all-zero array
		tr.sc.fact(fmt.Sprintf("(forall ((lo Int) (hi Int) (v Int)) (! (=> (and (<= lo hi) (not (%s 0 v))) (= (%s ((as const (Array Int Int)) 0) lo hi v) 0)) :pattern ((%s ((as const (Array Int Int)) 0) lo hi v))))", cmp, f, f))
	}
}

// cloneObj models proto.Clone on a message struct type t at reference ref: a fresh deep copy.
func (tr *Tr) cloneObj(st *State, t types.Type, ref string, depth int) string {
	if depth > 4 {
		panic(subsetErr("proto.Clone: message nesting too deep"))
	}
	stt := t.Underlying().(*types.Struct)
	nref := tr.freshRef(st, "clone")
	for i := 0; i < stt.NumFields(); i++ {
		f := stt.Field(i)
		if tr.g.ignoredField(t, f) {
			continue
		}
		loc := Loc{Kind: LField, Prefix: fieldPrefix(t, f.Name()), Ref: ref}
		nloc := Loc{Kind: LField, Prefix: fieldPrefix(t, f.Name()), Ref: nref}
		old := tr.loadAt(st, loc, f.Type())
		switch ft := f.Type().Underlying().(type) {
		case *types.Pointer:
			oc := old.(Sc).T
			if _, isStruct := ft.Elem().Underlying().(*types.Struct); isStruct {
				nc := tr.cloneObj(st, ft.Elem(), oc, depth+1)
				tr.storeAt(st, nloc, f.Type(), Sc{T: nc})
			} else {
				nc := tr.freshRef(st, "ccell")
				v := tr.loadAt(st, Loc{Kind: LCell, Prefix: cellPrefix(ft.Elem()), Ref: oc}, ft.Elem())
				tr.storeAt(st, Loc{Kind: LCell, Prefix: cellPrefix(ft.Elem()), Ref: nc}, ft.Elem(), v)
				tr.storeAt(st, nloc, f.Type(), Sc{T: sIte(sEq(oc, "0"), "0", nc)})
			}
		case *types.Slice:
			os := old.(Sl)
			na := tr.freshRef(st, "carr")
			et := ft.Elem()
			if kindOf(et) == kInt && !isPointer(et) {
				name := elemPrefix(et)
				h := tr.heapVar(st, name, arr2(sortInt))
				tr.fresh++
				inner := smtName(fmt.Sprintf("cl!%d", tr.fresh))
				tr.sc.declare(inner, "() (Array Int Int)")
				tr.sc.fact(fmt.Sprintf("(forall ((k Int)) (! (=> (and (<= 0 k) (< k %s)) (= (select %s k) (select (select %s %s) (+ %s k)))) :pattern ((select %s k))))", os.Len, inner, h, os.Arr, os.Off, inner))
				tr.setHeapVar(st, name, arr2(sortInt), tr.nameTerm(name, arr2(sortInt), sStore(h, na, inner)))
			}
			tr.storeAt(st, nloc, f.Type(), Sl{Arr: sIte(sEq(os.Arr, "0"), "0", na), Off: "0", Len: os.Len, Cap: os.Len})
		default:
			tr.storeAt(st, nloc, f.Type(), old)
		}
	}
	return sIte(sEq(ref, "0"), "0", nref)
}

func (tr *Tr) le64(st *State, b Sl) string {
	tr.sc.declare("|le64|", "((Array Int Int) Int) Int")
	h := tr.heapVar(st, "E$uint8", arr2(sortInt))
	t := "(|le64| " + sSel(h, b.Arr) + " " + b.Off + ")"
	key := "le64:" + t
	if !tr.typeFactDone[key] && !strings.Contains(t, "?") {
		tr.typeFactDone[key] = true
		tr.sc.fact(fmt.Sprintf("(and (<= 0 %s) (<= %s 18446744073709551615))", t, t))
	}
	return t
}

// sumPayload: sumpay(s, k) = sum over the first k entries of len(e.Data) (0 for a nil entry): recursive definition over
// the entries array and the Data-length heap; range consequence as for sumsize (lemma pay_range).
func (tr *Tr) sumPayload(st *State, et types.Type, s Sl, k string) string {
	tr.sumPayDecl()
	h := tr.heapVar(st, elemPrefix(et), arr2(sortInt))
	if _, ok := tr.heapKind["F$raftpb.Entry.Data#len"]; !ok {
		tr.heapKind["F$raftpb.Entry.Data#len"] = "int:0:2147483648"
	}
	dl := tr.heapVar(st, "F$raftpb.Entry.Data#len", arr1(sortInt))
	return "(|sumpl| " + sSel(h, s.Arr) + " " + s.Off + " " + k + " " + dl + ")"
}

func (tr *Tr) sumPayDecl() {
	if tr.sc.declared["|sumpl|"] {
		return
	}
	tr.sc.declare("|sumpl|", "((Array Int Int) Int Int (Array Int Int)) Int")
	dlen := "(ite (= (select a (+ o (- k 1))) 0) 0 (select d (select a (+ o (- k 1)))))"
	tr.sc.fact("(forall ((a (Array Int Int)) (o Int) (k Int) (d (Array Int Int))) (! (=> (<= k 0) (= (|sumpl| a o k d) 0)) :pattern ((|sumpl| a o k d))))")
	tr.sc.fact("(forall ((a (Array Int Int)) (o Int) (k Int) (d (Array Int Int))) (! (=> (> k 0) (= (|sumpl| a o k d) (+ (|sumpl| a o (- k 1) d) " + dlen + "))) :pattern ((|sumpl| a o k d))))")
	if !tr.lemmaProof {
		// consequence of lemma pay_range for k <= 2^31 and slice lengths <= 2^31 (A-arith)
		tr.sc.fact("(forall ((a (Array Int Int)) (o Int) (k Int) (d (Array Int Int))) (! (=> (and (<= 0 k) (<= k 2147483648) (forall ((e Int)) (and (<= 0 (select d e)) (<= (select d e) 2147483648)))) (and (<= 0 (|sumpl| a o k d)) (<= (|sumpl| a o k d) 4611686018427387904))) :pattern ((|sumpl| a o k d))))")
	}
	tr.assumptions["sumpay: recursive definition of the prefix sum of payload lengths (two definitional axioms); range fact is lemma pay_range, proved by the engine"] = true
}
