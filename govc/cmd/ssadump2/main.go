package main

import (
	"fmt"
	"os"
	"strings"

	"golang.org/x/tools/go/packages"
	"golang.org/x/tools/go/ssa"
	"golang.org/x/tools/go/ssa/ssautil"
)

func main() {
	cfg := &packages.Config{Mode: packages.LoadAllSyntax, Dir: "/repo", BuildFlags: []string{"-tags=verif"}}
	pkgs, err := packages.Load(cfg, ".", "./quorum", "./tracker", "./confchange", "./raftpb")
	if err != nil {
		panic(err)
	}
	prog, spkgs := ssautil.AllPackages(pkgs, ssa.InstantiateGenerics)
	prog.Build()
	for _, sp := range spkgs {
		if sp == nil {
			continue
		}
		for _, m := range sp.Members {
			if f, ok := m.(*ssa.Function); ok && match(f) {
				f.WriteTo(os.Stdout)
			}
			if t, ok := m.(*ssa.Type); ok {
				for _, tt := range []interface{ String() string }{t.Type()} {
					_ = tt
				}
				ms := prog.MethodSets.MethodSet(t.Type())
				for i := 0; i < ms.Len(); i++ {
					f := prog.MethodValue(ms.At(i))
					if f != nil && match(f) {
						f.WriteTo(os.Stdout)
					}
				}
				// pointer receiver
				// (types.NewPointer)
			}
		}
	}
	_ = fmt.Sprint
}

func match(f *ssa.Function) bool {
	for _, a := range os.Args[1:] {
		if strings.Contains(f.String(), a) {
			return true
		}
	}
	return false
}
