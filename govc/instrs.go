package main

import (
	"fmt"
	"go/token"
	"go/types"
	"strings"

	"golang.org/x/tools/go/ssa"
)

// wrap applies the exact machine semantics of the integer type t to the mathematical term x,
// assuming x is within one modulus of the range (true for +,- of in-range operands and for *const small).
func wrapOnce(x string, t types.Type) string {
	bits, signed, ok := intBits(t)
	if !ok {
		return x
	}
	m := pow2(bits)
	if signed {
		h := pow2(bits - 1)
		return fmt.Sprintf("(ite (>= %s %s) (- %s %s) (ite (< %s (- %s)) (+ %s %s) %s))", x, h, x, m, x, h, x, m, x)
	}
	return fmt.Sprintf("(ite (>= %s %s) (- %s %s) (ite (< %s 0) (+ %s %s) %s))", x, m, x, m, x, x, m, x)
}

// wrapMod is the general wrap (any magnitude) using mod.
func wrapMod(x string, t types.Type) string {
	bits, signed, ok := intBits(t)
	if !ok {
		return x
	}
	m := pow2(bits)
	if signed {
		h := pow2(bits - 1)
		return fmt.Sprintf("(- (mod (+ %s %s) %s) %s)", x, h, m, h)
	}
	return fmt.Sprintf("(mod %s %s)", x, m)
}

func isLiteral(s string) bool {
	if s == "" {
		return false
	}
	if s[0] >= '0' && s[0] <= '9' {
		return true
	}
	return strings.HasPrefix(s, "(- ") && len(s) > 4 && s[3] >= '0' && s[3] <= '9' && !strings.Contains(s[3:], " ")
}

func (tr *Tr) binop(op token.Token, a, b Value, ta, tres types.Type, st *State) Value {
	switch op {
	case token.EQL, token.NEQ:
		eq := tr.valuesEqual(a, b, ta)
		if op == token.NEQ {
			eq = sNot(eq)
		}
		return Sc{T: eq, Bool: true}
	}
	x, y := tr.asSc(a, ta), tr.asSc(b, ta)
	switch op {
	case token.LSS:
		return Sc{T: sLt(x.T, y.T), Bool: true}
	case token.LEQ:
		return Sc{T: sLe(x.T, y.T), Bool: true}
	case token.GTR:
		return Sc{T: sLt(y.T, x.T), Bool: true}
	case token.GEQ:
		return Sc{T: sLe(y.T, x.T), Bool: true}
	case token.LAND:
		return Sc{T: sAnd(x.T, y.T), Bool: true}
	case token.LOR:
		return Sc{T: sOr(x.T, y.T), Bool: true}
	case token.ADD:
		if isString(tres) {
			return Sc{T: tr.g.opaqueFn(tr, "strcat", x.T, y.T)}
		}
		return Sc{T: wrapOnce(sAdd(x.T, y.T), tres)}
	case token.SUB:
		return Sc{T: wrapOnce(sSub(x.T, y.T), tres)}
	case token.MUL:
		if isLiteral(x.T) || isLiteral(y.T) {
			return Sc{T: wrapMod("(* "+x.T+" "+y.T+")", tres)}
		}
		panic(subsetErr("non-linear multiplication"))
	case token.QUO:
		_, signed, _ := intBits(tres)
		if !isLiteral(y.T) {
			tr.oblige(st, "div", "", nil, sNot(sEq(y.T, "0")), "division by zero")
		}
		if !signed {
			return Sc{T: "(div " + x.T + " " + y.T + ")"}
		}
		// Go truncates toward zero
		q := fmt.Sprintf("(ite (>= %s 0) (div %s %s) (- (div (- %s) %s)))", x.T, x.T, y.T, x.T, y.T)
		if !isLiteral(y.T) || strings.HasPrefix(y.T, "(-") {
			panic(subsetErr("signed division by a non-positive-literal"))
		}
		return Sc{T: q}
	case token.REM:
		_, signed, _ := intBits(tres)
		if !isLiteral(y.T) {
			tr.oblige(st, "div", "", nil, sNot(sEq(y.T, "0")), "division by zero")
		}
		if !signed {
			return Sc{T: "(mod " + x.T + " " + y.T + ")"}
		}
		panic(subsetErr("signed remainder"))
	case token.AND, token.OR, token.XOR, token.SHL, token.SHR, token.AND_NOT:
		if x.Bool {
			switch op {
			case token.AND:
				return Sc{T: sAnd(x.T, y.T), Bool: true}
			case token.OR:
				return Sc{T: sOr(x.T, y.T), Bool: true}
			}
		}
		panic(subsetErr("bit operation " + op.String()))
	}
	panic(subsetErr("binop " + op.String()))
}

// valuesEqual is Go's == on values of static type t.
func (tr *Tr) valuesEqual(a, b Value, t types.Type) string {
	switch x := a.(type) {
	case Sl:
		// only comparison with nil is legal in Go
		if y, ok := b.(Sl); ok {
			if y.Arr == "0" {
				return sEq(x.Arr, "0")
			}
			if x.Arr == "0" {
				return sEq(y.Arr, "0")
			}
		}
		panic(subsetErr("slice comparison"))
	case If:
		y := tr.asIf(b)
		return sAnd(sEq(x.Tag, y.Tag), sEq(x.Val, y.Val))
	case St:
		y := b.(St)
		var cs []string
		var ft func(i int) types.Type
		switch u := t.Underlying().(type) {
		case *types.Struct:
			ft = func(i int) types.Type { return u.Field(i).Type() }
		case *types.Array:
			ft = func(i int) types.Type { return u.Elem() }
		}
		for i := range x.F {
			cs = append(cs, tr.valuesEqual(x.F[i], y.F[i], ft(i)))
		}
		return sAnd(cs...)
	case *FnV:
		panic(subsetErr("function comparison"))
	}
	if _, ok := b.(If); ok {
		return tr.valuesEqual(b, a, t)
	}
	x, y := tr.asSc(a, t), tr.asSc(b, t)
	return sEq(x.T, y.T)
}

func (tr *Tr) execInstr(fr *Frame, in ssa.Instruction, st *State) {
	switch x := in.(type) {
	case *ssa.Alloc:
		fr.vals[x] = tr.execAlloc(fr, x, st)
	case *ssa.FieldAddr:
		pt := x.X.Type().Underlying().(*types.Pointer).Elem()
		stt := pt.Underlying().(*types.Struct)
		base := tr.val(fr, x.X)
		if lv, ok := base.(LocV); ok && lv.L.Kind == LElem {
			f := stt.Field(x.Field)
			fr.vals[x] = LocV{L: Loc{Kind: LElem, Prefix: lv.L.Prefix + "." + f.Name(), Ref: lv.L.Ref, Idx: lv.L.Idx}, Typ: f.Type()}
			return
		}
		ref := tr.asRef(base)
		if _, isAlloc := x.X.(*ssa.Alloc); !isAlloc {
			if _, isLoc := base.(LocV); !isLoc {
				tr.oblige(st, "nil", "", nil, sNot(sEq(ref, "0")), fmt.Sprintf("nil dereference of %s (field %s)", x.X.Name(), stt.Field(x.Field).Name()))
			}
		}
		f := stt.Field(x.Field)
		fr.vals[x] = LocV{L: Loc{Kind: LField, Prefix: fieldPrefix(pt, f.Name()), Ref: ref}, Typ: f.Type()}
	case *ssa.Field:
		sv, ok := tr.val(fr, x.X).(St)
		if !ok {
			panic(subsetErr("Field on non-struct value"))
		}
		fr.vals[x] = sv.F[x.Field]
	case *ssa.IndexAddr:
		idx := tr.asSc(tr.val(fr, x.Index), nil).T
		switch u := x.X.Type().Underlying().(type) {
		case *types.Slice:
			s := tr.asSl(tr.val(fr, x.X))
			tr.oblige(st, "bounds", "", nil, sAnd(sLe("0", idx), sLt(idx, s.Len)), "index out of range: "+x.X.Name()+"["+x.Index.Name()+"]")
			fr.vals[x] = LocV{L: Loc{Kind: LElem, Prefix: elemPrefix(u.Elem()), Ref: s.Arr, Idx: sAdd(s.Off, idx)}, Typ: u.Elem()}
		case *types.Pointer:
			at := u.Elem().Underlying().(*types.Array)
			ref := tr.asRef(tr.val(fr, x.X))
			if !isLiteral(idx) {
				tr.oblige(st, "bounds", "", nil, sAnd(sLe("0", idx), sLt(idx, fmt.Sprint(at.Len()))), "array index out of range")
			}
			fr.vals[x] = LocV{L: Loc{Kind: LElem, Prefix: elemPrefix(at.Elem()), Ref: ref, Idx: idx}, Typ: at.Elem()}
		default:
			panic(subsetErr("IndexAddr on " + x.X.Type().String()))
		}
	case *ssa.Index:
		switch u := x.X.Type().Underlying().(type) {
		case *types.Array:
			sv := tr.val(fr, x.X).(St)
			idx := tr.asSc(tr.val(fr, x.Index), nil).T
			if isLiteral(idx) {
				var n int
				fmt.Sscan(idx, &n)
				fr.vals[x] = sv.F[n]
			} else {
				tr.oblige(st, "bounds", "", nil, sAnd(sLe("0", idx), sLt(idx, fmt.Sprint(u.Len()))), "array index out of range")
				vals := make([]Value, len(sv.F))
				guards := make([]string, len(sv.F))
				for i := range sv.F {
					vals[i] = sv.F[i]
					guards[i] = sEq(idx, fmt.Sprint(i))
				}
				fr.vals[x] = tr.mergeValues(x.Name(), vals, guards)
			}
		default:
			if isString(x.X.Type()) {
				fr.vals[x] = tr.freshValue(x.Type(), x.Name(), st)
				return
			}
			panic(subsetErr("Index on " + x.X.Type().String()))
		}
	case *ssa.UnOp:
		switch x.Op {
		case token.MUL:
			pt := x.X.Type().Underlying().(*types.Pointer).Elem()
			v := tr.val(fr, x.X)
			if sc, ok := v.(Sc); ok {
				tr.oblige(st, "nil", "", nil, sNot(sEq(sc.T, "0")), "nil dereference of "+x.X.Name())
			}
			fr.vals[x] = tr.loadAt(st, tr.locOf(v, pt), pt)
		case token.NOT:
			fr.vals[x] = Sc{T: sNot(tr.asSc(tr.val(fr, x.X), nil).T), Bool: true}
		case token.SUB:
			fr.vals[x] = Sc{T: wrapOnce("(- "+tr.asSc(tr.val(fr, x.X), nil).T+")", x.Type())}
		default:
			panic(subsetErr("unary " + x.Op.String()))
		}
	case *ssa.BinOp:
		if ph, ok := x.X.(*ssa.Phi); ok && x.Op == token.ADD && ph.Comment == "rangeindex" {
			if c, ok := x.Y.(*ssa.Const); ok && c.Value != nil && c.Value.ExactString() == "1" {
				// the hidden index of a range loop: it stays below the length of the ranged value, so the increment cannot wrap
				fr.vals[x] = Sc{T: sAdd(tr.asSc(tr.val(fr, x.X), nil).T, "1")}
				break
			}
		}
		fr.vals[x] = tr.binop(x.Op, tr.val(fr, x.X), tr.val(fr, x.Y), x.X.Type(), x.Type(), st)
	case *ssa.Store:
		pt := x.Addr.Type().Underlying().(*types.Pointer).Elem()
		a := tr.val(fr, x.Addr)
		if sc, ok := a.(Sc); ok {
			tr.oblige(st, "nil", "", nil, sNot(sEq(sc.T, "0")), "nil dereference (store) of "+x.Addr.Name())
		}
		tr.storeAt(st, tr.locOf(a, pt), pt, tr.coerce(tr.val(fr, x.Val), x.Val.Type(), pt))
	case *ssa.Call:
		v := tr.execCall(fr, &x.Call, x, st)
		if v != nil {
			fr.vals[x] = v
		}
	case *ssa.Defer:
		fr.defers = append(fr.defers, x)
	case *ssa.RunDefers:
		tr.runDefers(fr, st)
		fr.defers = nil
	case *ssa.Extract:
		t := tr.val(fr, x.Tuple).(Tup)
		fr.vals[x] = t.E[x.Index]
	case *ssa.MakeInterface:
		fr.vals[x] = tr.makeIface(tr.val(fr, x.X), x.X.Type())
	case *ssa.ChangeInterface:
		fr.vals[x] = tr.val(fr, x.X)
	case *ssa.ChangeType:
		fr.vals[x] = tr.val(fr, x.X)
	case *ssa.Convert:
		fr.vals[x] = tr.convert(tr.val(fr, x.X), x.X.Type(), x.Type(), st)
	case *ssa.TypeAssert:
		fr.vals[x] = tr.typeAssert(x, tr.asIf(tr.val(fr, x.X)), st)
	case *ssa.MakeSlice:
		l := tr.asSc(tr.val(fr, x.Len), nil).T
		c := tr.asSc(tr.val(fr, x.Cap), nil).T
		tr.oblige(st, "bounds", "", nil, sAnd(sLe("0", l), sLe(l, c)), "makeslice: len out of range")
		et := x.Type().Underlying().(*types.Slice).Elem()
		ref := tr.freshRef(st, "mk")
		tr.initArray(st, ref, et)
		fr.vals[x] = Sl{ref, "0", l, c}
	case *ssa.MakeMap:
		mt := x.Type().Underlying().(*types.Map)
		ref := tr.freshRef(st, "map")
		tr.initMap(st, ref, mt)
		fr.vals[x] = Sc{T: ref}
	case *ssa.MapUpdate:
		mt := x.Map.Type().Underlying().(*types.Map)
		m := tr.asSc(tr.val(fr, x.Map), nil).T
		tr.oblige(st, "nil", "", nil, sNot(sEq(m, "0")), "assignment to entry in nil map")
		tr.mapStore(st, mt, m, tr.mapKey(tr.val(fr, x.Key), mt.Key()), tr.coerce(tr.val(fr, x.Value), x.Value.Type(), mt.Elem()))
	case *ssa.Lookup:
		if mt, ok := x.X.Type().Underlying().(*types.Map); ok {
			m := tr.asSc(tr.val(fr, x.X), nil).T
			k := tr.mapKey(tr.val(fr, x.Index), mt.Key())
			v, has := tr.mapLoad(st, mt, m, k)
			if x.CommaOk {
				fr.vals[x] = Tup{E: []Value{v, Sc{T: has, Bool: true}}}
			} else {
				fr.vals[x] = v
			}
			return
		}
		// string index
		fr.vals[x] = tr.freshValue(x.Type(), x.Name(), st)
	case *ssa.Slice:
		fr.vals[x] = tr.execSlice(fr, x, st)
	case *ssa.Range:
		fr.vals[x] = tr.execRange(fr, x, st)
	case *ssa.Next:
		fr.vals[x] = tr.execNext(fr, x, st)
	case *ssa.MakeClosure:
		fv := &FnV{Fn: x.Fn.(*ssa.Function)}
		for _, b := range x.Bindings {
			fv.Bind = append(fv.Bind, tr.val(fr, b))
		}
		fr.vals[x] = fv
	default:
		panic(subsetErr(fmt.Sprintf("instruction %T (%s)", in, in)))
	}
}

// coerce adapts a value of static type from to a location of type to (nil constants etc.).
func (tr *Tr) coerce(v Value, from, to types.Type) Value {
	if lv, ok := v.(LocV); ok && kindOf(to) == kInt {
		return Sc{T: tr.asRef(lv)}
	}
	if fv, ok := v.(*FnV); ok {
		return Sc{T: tr.g.funcID(tr, fv)}
	}
	return v
}

func (tr *Tr) execAlloc(fr *Frame, x *ssa.Alloc, st *State) Value {
	t := x.Type().Underlying().(*types.Pointer).Elem()
	k := kindOf(t)
	switch k {
	case kStruct:
		ref := tr.freshRef(st, "obj")
		tr.storeAt(st, Loc{Kind: LCell, Ref: ref}, t, tr.zeroValue(t))
		return Sc{T: ref}
	case kArray:
		ref := tr.freshRef(st, "arr")
		tr.initArray(st, ref, t.Underlying().(*types.Array).Elem())
		return Sc{T: ref}
	}
	if allocIsLocal(x) {
		name := fmt.Sprintf("L$%d$%s", fr.id, x.Name())
		if x.Comment != "" {
			name += "$" + x.Comment
		}
		fr.localVar[x] = name
		st.vars[name] = tr.zeroValue(t)
		return LocV{L: Loc{Kind: LVar, Prefix: name}, Typ: t}
	}
	ref := tr.freshRef(st, "cell")
	tr.storeAt(st, Loc{Kind: LCell, Prefix: cellPrefix(t), Ref: ref}, t, tr.zeroValue(t))
	return Sc{T: ref}
}

// allocIsLocal reports whether all uses of the allocation are loads, stores to it, or closure captures.
func allocIsLocal(x *ssa.Alloc) bool {
	refs := x.Referrers()
	if refs == nil {
		return false
	}
	for _, r := range *refs {
		switch u := r.(type) {
		case *ssa.UnOp:
			if u.Op != token.MUL {
				return false
			}
		case *ssa.Store:
			if u.Addr != x {
				return false
			}
		case *ssa.DebugRef, *ssa.MakeClosure:
		default:
			return false
		}
	}
	return true
}

func (tr *Tr) initArray(st *State, ref string, et types.Type) {
	for _, lf := range tr.leavesOf(et) {
		name := elemPrefix(et) + lf.suffix
		h := tr.heapVar(st, name, arr2(lf.sort))
		zero := fmt.Sprintf("((as const (Array Int %s)) %s)", lf.sort, zeroOf(lf.sort))
		sym := tr.nameTerm(name, arr2(lf.sort), sStore(h, ref, zero))
		tr.stores[sym] = storeRec{base: h, ref: ref, idx: "*", val: zeroOf(lf.sort)}
		if tr.freshRefs[ref] {
			tr.allocParent[sym] = h
		}
		tr.setHeapVar(st, name, arr2(lf.sort), sym)
	}
}

func (tr *Tr) makeIface(v Value, t types.Type) Value {
	if _, ok := t.Underlying().(*types.Interface); ok {
		return v
	}
	tag := fmt.Sprint(tr.g.typeTag(t))
	switch x := v.(type) {
	case Sc:
		if x.Bool {
			return If{tag, sIte(x.T, "1", "0")}
		}
		return If{tag, x.T}
	case LocV:
		return If{tag, tr.asRef(x)}
	case *FnV:
		return If{tag, tr.g.funcID(tr, x)}
	case St:
		// box a struct value: payload is an opaque id determined by the leaves
		ls := tr.valueLeaves(x, t)
		return If{tag, tr.g.boxFn(tr, typeKey(t), ls, tr.leavesOf(t))}
	case Sl:
		return If{tag, tr.g.boxFn(tr, typeKey(t), []string{x.Arr, x.Off, x.Len, x.Cap}, tr.leavesOf(t))}
	}
	panic(subsetErr(fmt.Sprintf("MakeInterface of %T", v)))
}

func (tr *Tr) typeAssert(x *ssa.TypeAssert, iv If, st *State) Value {
	if _, isIface := x.AssertedType.Underlying().(*types.Interface); isIface {
		// interface-to-interface: succeeds iff non-nil (we do not model method sets)
		if x.CommaOk {
			return Tup{E: []Value{iv, Sc{T: sNot(sEq(iv.Tag, "0")), Bool: true}}}
		}
		tr.oblige(st, "nil", "", nil, sNot(sEq(iv.Tag, "0")), "type assertion on nil interface")
		return iv
	}
	tag := fmt.Sprint(tr.g.typeTag(x.AssertedType))
	ok := sEq(iv.Tag, tag)
	var v Value
	switch kindOf(x.AssertedType) {
	case kInt:
		v = Sc{T: iv.Val}
		tr.assumeTypeFacts(v, x.AssertedType, st)
	case kBool:
		v = Sc{T: sEq(iv.Val, "1"), Bool: true}
	default:
		ls := tr.g.unboxFn(tr, typeKey(x.AssertedType), iv.Val, tr.leavesOf(x.AssertedType))
		v = tr.valueFromLeaves(x.AssertedType, &ls)
	}
	if x.CommaOk {
		return Tup{E: []Value{v, Sc{T: ok, Bool: true}}}
	}
	tr.oblige(st, "assert", "", nil, ok, "type assertion to "+x.AssertedType.String()+" succeeds")
	return v
}

func (tr *Tr) convert(v Value, from, to types.Type, st *State) Value {
	if _, _, ok := intBits(to); ok {
		if _, _, ok2 := intBits(from); ok2 {
			s := tr.asSc(v, from)
			lo, hi, _ := intRange(to)
			flo, fhi, _ := intRange(from)
			_ = flo
			_ = fhi
			if typeRangeWithin(from, to) {
				return s
			}
			_ = lo
			_ = hi
			// same width, different signedness: every value of the source type is at most one modulus away from the
			// target range, so a single comparison replaces the mod (values of a type are kept inside its range throughout)
			if fb, fs, _ := intBits(from); true {
				if tb, ts, _ := intBits(to); fb == tb && fs != ts {
					m := pow2(tb)
					if ts {
						h := pow2(tb - 1)
						return Sc{T: fmt.Sprintf("(ite (>= %s %s) (- %s %s) %s)", s.T, h, s.T, m, s.T)}
					}
					return Sc{T: fmt.Sprintf("(ite (< %s 0) (+ %s %s) %s)", s.T, s.T, m, s.T)}
				}
			}
			return Sc{T: wrapMod(s.T, to)}
		}
	}
	fk, tk := kindOf(from), kindOf(to)
	if isString(to) && fk == kSlice {
		s := tr.asSl(v)
		return Sc{T: tr.g.opaqueFn(tr, "bytes2str", s.Arr, s.Off, s.Len)}
	}
	if tk == kSlice && isString(from) {
		// []byte(s): fresh slice with length strlen(s)
		s := tr.asSc(v, from)
		ref := tr.freshRef(st, "s2b")
		n := tr.g.strlen(tr, s.T)
		return Sl{ref, "0", n, n}
	}
	if isString(to) && isString(from) {
		return v
	}
	if fk == tk && (fk == kInt || fk == kBool) {
		// pointer / unsafe conversions keep the representation
		return v
	}
	panic(subsetErr(fmt.Sprintf("conversion %s -> %s", from, to)))
}

func typeRangeWithin(from, to types.Type) bool {
	fb, fs, _ := intBits(from)
	tb, ts, _ := intBits(to)
	if fs == ts {
		return fb <= tb
	}
	if !fs && ts {
		return fb < tb
	}
	return false
}

func (tr *Tr) execSlice(fr *Frame, x *ssa.Slice, st *State) Value {
	get := func(v ssa.Value) string {
		if v == nil {
			return ""
		}
		return tr.asSc(tr.val(fr, v), nil).T
	}
	lo, hi, mx := get(x.Low), get(x.High), get(x.Max)
	if lo == "" {
		lo = "0"
	}
	switch u := x.X.Type().Underlying().(type) {
	case *types.Slice:
		s := tr.asSl(tr.val(fr, x.X))
		if hi == "" {
			hi = s.Len
		}
		capLim := s.Cap
		if mx != "" {
			capLim = mx
			tr.oblige(st, "bounds", "", nil, sAnd(sLe("0", lo), sLe(lo, hi), sLe(hi, mx), sLe(mx, s.Cap)), "slice bounds out of range (3-index)")
		} else {
			tr.oblige(st, "bounds", "", nil, sAnd(sLe("0", lo), sLe(lo, hi), sLe(hi, s.Cap)), "slice bounds out of range")
		}
		return Sl{s.Arr, sAdd(s.Off, lo), sSub(hi, lo), sSub(capLim, lo)}
	case *types.Pointer:
		at := u.Elem().Underlying().(*types.Array)
		ref := tr.asRef(tr.val(fr, x.X))
		n := fmt.Sprint(at.Len())
		if hi == "" {
			hi = n
		}
		capLim := n
		if mx != "" {
			capLim = mx
		}
		tr.oblige(st, "bounds", "", nil, sAnd(sLe("0", lo), sLe(lo, hi), sLe(hi, capLim), sLe(capLim, n)), "slice of array out of range")
		return Sl{ref, lo, sSub(hi, lo), sSub(capLim, lo)}
	default:
		if isString(x.X.Type()) {
			s := tr.asSc(tr.val(fr, x.X), nil)
			return Sc{T: tr.g.opaqueFn(tr, "substr", s.T, lo, hi)}
		}
	}
	panic(subsetErr("Slice on " + x.X.Type().String()))
}

// ---------------------------------------------------------------------------------------------
// maps

func (tr *Tr) mapKey(v Value, kt types.Type) string { return tr.asSc(v, kt).T }

func (tr *Tr) mapDom(st *State, mt *types.Map) string {
	return tr.heapVar(st, mapPrefix(mt)+"#dom", arr2(sortBool))
}
func (tr *Tr) mapLen(st *State, mt *types.Map) string {
	return tr.heapVar(st, mapPrefix(mt)+"#len", arr1(sortInt))
}

func (tr *Tr) initMap(st *State, ref string, mt *types.Map) {
	p := mapPrefix(mt)
	d := tr.mapDom(st, mt)
	tr.setHeapVar(st, p+"#dom", arr2(sortBool), tr.nameTerm(p+"#dom", arr2(sortBool), sStore(d, ref, "((as const (Array Int Bool)) false)")))
	l := tr.mapLen(st, mt)
	tr.setHeapVar(st, p+"#len", arr1(sortInt), tr.nameTerm(p+"#len", arr1(sortInt), sStore(l, ref, "0")))
}

func (tr *Tr) nilMapFacts(st *State, mt *types.Map, m string) {
	if isLiteral(m) && m != "0" || strings.Contains(m, "?") {
		return
	}
	key := "nilmap:" + m + tr.mapDom(st, mt) + tr.mapLen(st, mt)
	if tr.typeFactDone[key] {
		return
	}
	tr.typeFactDone[key] = true
	if strings.Contains(m, "(ite ") && tr.specMode == 0 {
		// patterns must not contain ite: name the map reference
		sym := tr.freshSym("mref", false)
		tr.sc.factLocal(sEq(sym, m))
		m = sym
	}
	tr.sc.fact(fmt.Sprintf("(=> (= %s 0) (and (= %s 0) (forall ((k Int)) (! (not (select (select %s %s) k)) :pattern ((select (select %s %s) k))))))",
		m, sSel(tr.mapLen(st, mt), m), tr.mapDom(st, mt), m, tr.mapDom(st, mt), m))
	tr.sc.fact(fmt.Sprintf("(and (<= 0 %s) (<= %s 2147483648))", sSel(tr.mapLen(st, mt), m), sSel(tr.mapLen(st, mt), m)))
	// len is the number of keys: an empty map has no key (the general relation to counts is A-count)
	tr.sc.fact(fmt.Sprintf("(=> (= %s 0) (forall ((k Int)) (! (not (select (select %s %s) k)) :pattern ((select (select %s %s) k)))))",
		sSel(tr.mapLen(st, mt), m), tr.mapDom(st, mt), m, tr.mapDom(st, mt), m))
}

// markMapKinds records what the value heaps of a map type hold, so that heap-version axioms cover map values too.
func (tr *Tr) markMapKinds(mt *types.Map) {
	et := mt.Elem()
	p := mapPrefix(mt) + "#val"
	if _, done := tr.heapKind[p+"$marked"]; done {
		return
	}
	tr.heapKind[p+"$marked"] = "x"
	tr.markHeapKinds(Loc{Kind: LElem, Prefix: p}, et)
}

func (tr *Tr) mapLoad(st *State, mt *types.Map, m, k string) (Value, string) {
	tr.markMapKinds(mt)
	tr.nilMapFacts(st, mt, m)
	has := sSel(sSel(tr.mapDom(st, mt), m), k)
	et := mt.Elem()
	var terms []string
	for _, lf := range tr.leavesOf(et) {
		h := tr.heapVar(st, mapPrefix(mt)+"#val"+lf.suffix, arr2(lf.sort))
		terms = append(terms, sIte(has, sSel(sSel(h, m), k), zeroOf(lf.sort)))
	}
	if len(terms) == 0 {
		return St{}, has
	}
	v := tr.valueFromLeaves(et, &terms)
	tr.assumeTypeFacts(v, et, st)
	return v, has
}

func (tr *Tr) mapStore(st *State, mt *types.Map, m, k string, v Value) {
	tr.markMapKinds(mt)
	p := mapPrefix(mt)
	d := tr.mapDom(st, mt)
	l := tr.mapLen(st, mt)
	has := sSel(sSel(d, m), k)
	tr.setHeapVar(st, p+"#len", arr1(sortInt), tr.nameTerm(p+"#len", arr1(sortInt), sStore(l, m, sAdd(sSel(l, m), sIte(has, "0", "1")))))
	tr.setHeapVar(st, p+"#dom", arr2(sortBool), tr.nameTerm(p+"#dom", arr2(sortBool), sStore(d, m, sStore(sSel(d, m), k, "true"))))
	et := mt.Elem()
	lvs := tr.leavesOf(et)
	if len(lvs) == 0 {
		return
	}
	terms := tr.valueLeaves(v, et)
	for i, lf := range lvs {
		name := p + "#val" + lf.suffix
		h := tr.heapVar(st, name, arr2(lf.sort))
		tr.setHeapVar(st, name, arr2(lf.sort), tr.nameTerm(name, arr2(lf.sort), sStore(h, m, sStore(sSel(h, m), k, terms[i]))))
	}
}

func (tr *Tr) mapDelete(st *State, mt *types.Map, m, k string) {
	p := mapPrefix(mt)
	d := tr.mapDom(st, mt)
	l := tr.mapLen(st, mt)
	tr.nilMapFacts(st, mt, m)
	has := sSel(sSel(d, m), k)
	// delete on a nil map is a no-op; dom[0] is all-false so the update below keeps it so
	tr.setHeapVar(st, p+"#len", arr1(sortInt), tr.nameTerm(p+"#len", arr1(sortInt), sStore(l, m, sSub(sSel(l, m), sIte(has, "1", "0")))))
	tr.setHeapVar(st, p+"#dom", arr2(sortBool), tr.nameTerm(p+"#dom", arr2(sortBool), sStore(d, m, sStore(sSel(d, m), k, "false"))))
}

func (tr *Tr) execRange(fr *Frame, x *ssa.Range, st *State) Value {
	mt, ok := x.X.Type().Underlying().(*types.Map)
	if !ok {
		panic(subsetErr("range over " + x.X.Type().String()))
	}
	m := tr.asSc(tr.val(fr, x.X), nil).T
	tr.nilMapFacts(st, mt, m)
	tr.fresh++
	id := tr.fresh
	e := &mapEnum{id: id, mref: m, mtyp: mt}
	e.dom = sSel(tr.mapDom(st, mt), m)
	e.n = sSel(tr.mapLen(st, mt), m)
	e.pick = smtName(fmt.Sprintf("pick!%d", id))
	e.rank = smtName(fmt.Sprintf("rank!%d", id))
	e.counter = fmt.Sprintf("I$%d", id)
	tr.sc.declare(e.pick, "(Int) Int")
	tr.sc.declare(e.rank, "(Int) Int")
	// bijection between [0,n) and dom
	tr.sc.fact(fmt.Sprintf("(forall ((i Int)) (! (=> (and (<= 0 i) (< i %s)) (and (select %s (%s i)) (= (%s (%s i)) i))) :pattern ((%s i))))", e.n, e.dom, e.pick, e.rank, e.pick, e.pick))
	tr.sc.fact(fmt.Sprintf("(forall ((k Int)) (! (=> (select %s k) (and (<= 0 (%s k)) (< (%s k) %s) (= (%s (%s k)) k))) :pattern ((%s k))))", e.dom, e.rank, e.rank, e.n, e.pick, e.rank, e.rank))
	tr.sc.fact(fmt.Sprintf("(forall ((k Int)) (! (=> (select %s k) (and (<= 0 (%s k)) (< (%s k) %s) (= (%s (%s k)) k))) :pattern ((select %s k))))", e.dom, e.rank, e.rank, e.n, e.pick, e.rank, e.dom))
	st.vars[e.counter] = Sc{T: "0"}
	fr.iters[x] = e
	return Sc{T: fmt.Sprint(id)}
}

func (tr *Tr) execNext(fr *Frame, x *ssa.Next, st *State) Value {
	e := fr.iters[x.Iter]
	if e == nil {
		panic(subsetErr("next on unknown iterator"))
	}
	it := st.vars[e.counter].(Sc).T
	ok := sLt(it, e.n)
	k := "(" + e.pick + " " + it + ")"
	kv := Sc{T: k}
	tr.assumeTypeFacts(kv, e.mtyp.Key(), st)
	var v Value = Sc{T: "0"}
	tup := x.Type().(*types.Tuple)
	if tup.Len() == 3 && tup.At(2).Type() != nil && tup.At(2).Type() != types.Typ[types.Invalid] {
		v, _ = tr.mapLoad(st, e.mtyp, e.mref, k)
	}
	st.vars[e.counter] = Sc{T: tr.nameTermInt("it", sAdd(it, "1"))}
	return Tup{E: []Value{Sc{T: ok, Bool: true}, kv, v}}
}

func (tr *Tr) nameTermInt(hint, term string) string {
	if tr.specMode > 0 {
		return term
	}
	s := tr.freshSym(hint, false)
	tr.sc.factLocal(sEq(s, term))
	return s
}
