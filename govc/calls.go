package main

import (
	"fmt"
	"go/types"
	"strings"

	"golang.org/x/tools/go/ssa"
)

const maxInlineDepth = 6

// execCall translates a call. instr is nil for deferred calls.
func (tr *Tr) execCall(fr *Frame, c *ssa.CallCommon, instr *ssa.Call, st *State) Value {
	var resT types.Type
	if instr != nil {
		resT = instr.Type()
	} else {
		resT = c.Signature().Results()
	}
	args := make([]Value, len(c.Args))
	for i, a := range c.Args {
		args[i] = tr.val(fr, a)
	}
	if c.IsInvoke() {
		recv := tr.val(fr, c.Value)
		return tr.invoke(fr, c, recv, args, resT, st)
	}
	switch f := c.Value.(type) {
	case *ssa.Builtin:
		return tr.builtin(fr, f, c, args, resT, st)
	case *ssa.Function:
		return tr.callStatic(fr, f, nil, args, resT, st)
	case *ssa.MakeClosure:
		fv := tr.val(fr, f).(*FnV)
		return tr.callStatic(fr, fv.Fn, fv.Bind, args, resT, st)
	}
	if tr.cbParam != nil && c.Value == tr.cbParam && fr != nil && fr.top {
		return tr.callbackCall(fr, c, args, st)
	}
	// dynamic call through a function value
	v := tr.val(fr, c.Value)
	if fv, ok := v.(*FnV); ok {
		return tr.callStatic(fr, fv.Fn, fv.Bind, args, resT, st)
	}
	return tr.g.dynCall(tr, fr, c, v, args, resT, st)
}

func (tr *Tr) callStatic(fr *Frame, f *ssa.Function, bind []Value, args []Value, resT types.Type, st *State) Value {
	v := tr.callStatic1(fr, f, bind, args, resT, st)
	tr.afterCallHints(fr, tr.g.funcKey(f), f.Signature, v, st)
	return v
}

// afterCallHints checks and assumes the "after <callee> assert" hints of the function under contract.
func (tr *Tr) afterCallHints(fr *Frame, key string, sig *types.Signature, res Value, st *State) {
	if fr == nil || !fr.top || tr.fc == nil || len(tr.fc.After) == 0 || tr.specMode > 0 || st.guard == "false" {
		return
	}
	tr.callCount[key]++
	for _, ac := range tr.fc.After {
		if ac.Callee != key || (ac.Ordinal != 0 && ac.Ordinal != tr.callCount[key]) {
			continue
		}
		env := tr.frameEnv(fr, st, tr.curBlock, nil, nil)
		env.atIdx = tr.curInstrIdx
		if res != nil {
			tr.bindResults(env, sig, res)
		}
		if ac.Assume {
			tr.specMode++
			f := tr.evalBool(env, ac.Clause.Expr)
			tr.specMode--
			tr.assume(st, f)
			if ac.Env {
				tr.assumptions["environment assumption "+ac.Clause.Label+" (in "+tr.key+"): the request handed to "+key+" is one it accepts ("+ac.Clause.Src+")"] = true
			}
			continue
		}
		goal := tr.evalBool(env, ac.Clause.Expr)
		lbl := ac.Clause.Label
		if lbl == "" {
			lbl = fmt.Sprintf("L%d", ac.Clause.Line)
		}
		tr.oblige(st, "assert", fmt.Sprintf("after.%s.%s@%d", key, lbl, tr.callCount[key]), ac.Clause.Props, goal, "hint after call to "+key+": "+ac.Clause.Src)
	}
}

func (tr *Tr) callStatic1(fr *Frame, f *ssa.Function, bind []Value, args []Value, resT types.Type, st *State) Value {
	key := tr.g.funcKey(f)
	if v, handled := tr.libCall(key, f, args, resT, st); handled {
		return v
	}
	fc := tr.g.contracts.Funcs[key]
	if fc != nil && fc.Iterates != nil && bind == nil {
		return tr.iterateCall(fr, key, fc, f, args, st)
	}
	if fc != nil && !fc.Inline && (len(fc.Requires) > 0 || len(fc.Ensures) > 0 || fc.Trusted || fc.NoReturn || fc.Pure) && bind == nil {
		return tr.callContract(key, fc, f, f.Signature, nil, args, resT, st)
	}
	if len(f.Blocks) == 0 {
		panic(subsetErr("call to external function without contract: " + key))
	}
	return tr.inline(fr, f, bind, args, st)
}

// inline executes the callee body in a sub-frame and merges its return points into st.
func (tr *Tr) inline(fr *Frame, f *ssa.Function, bind []Value, args []Value, st *State) Value {
	key := tr.g.funcKey(f)
	depth := 0
	if fr != nil {
		depth = fr.depth + 1
	}
	if depth > maxInlineDepth {
		panic(subsetErr("inlining too deep at " + key))
	}
	for _, k := range tr.inlineStack {
		if k == key {
			panic(subsetErr("recursive inlining of " + key))
		}
	}
	tr.inlineStack = append(tr.inlineStack, key)
	defer func() { tr.inlineStack = tr.inlineStack[:len(tr.inlineStack)-1] }()
	sub := tr.newFrame(f, depth, false)
	sub.parent = fr
	for i, p := range f.Params {
		sub.vals[p] = args[i]
	}
	for i, fv := range f.FreeVars {
		sub.vals[fv] = bind[i]
	}
	savedPos := tr.curPos
	rets := tr.execBody(sub, st.clone())
	tr.curPos = savedPos
	if len(rets) == 0 {
		st.guard = "false"
		return nil
	}
	var sts []*State
	var vals []Value
	for _, r := range rets {
		sts = append(sts, r.st)
		vals = append(vals, r.val)
	}
	m := tr.mergeStates(sts)
	// drop the callee's local cells
	for k := range m.vars {
		if strings.HasPrefix(k, fmt.Sprintf("L$%d$", sub.id)) {
			delete(m.vars, k)
		}
	}
	*st = *m
	guards := make([]string, len(sts))
	for i, s := range sts {
		guards[i] = s.guard
	}
	if vals[0] == nil {
		return nil
	}
	return tr.mergeValues(f.Name()+"$ret", vals, guards)
}

// callContract applies a contract at a call site: assert pre, havoc mod-set, assume post.
// f may be nil (interface method); sig gives parameter names/types. recvVal is the interface receiver for invokes.
func (tr *Tr) callContract(key string, fc *FuncContract, f *ssa.Function, sig *types.Signature, recv *EV, args []Value, resT types.Type, st *State) Value {
	if fc.Trusted {
		tr.assumptions["trusted contract: "+key] = true
	}
	if f == nil && !fc.Trusted {
		// dynamic dispatch: the call continues with the interface method's contract, which is an assumption about whichever
		// implementation is behind the value (DESIGN §12.2 lists for which implementations it is proved)
		tr.assumptions["interface contract (assumed of the implementation behind the value): "+key] = true
	}
	env := &CEnv{vars: map[string]EV{}, st: st, old: st, pkg: tr.g.contractPkg(key, f)}
	tr.bindParams(env, f, sig, recv, args)
	for _, rq := range fc.Requires {
		goal := tr.evalBool(env, rq.Expr)
		lbl := rq.Label
		if lbl == "" {
			lbl = fmt.Sprintf("L%d", rq.Line)
		}
		tr.oblCount["call:"+key]++
		tr.oblige(st, "call", fmt.Sprintf("%s.%s@%d", key, lbl, tr.oblCount["call:"+key]), rq.Props, goal, "precondition of "+key+": "+rq.Src)
	}
	for _, a := range args {
		if iv, ok := a.(If); ok {
			tr.emitIfaceBindings(st, iv)
		}
	}
	if recv != nil {
		if iv, ok := recv.V.(If); ok {
			tr.emitIfaceBindings(st, iv)
		}
	}
	if fc.NoReturn {
		tr.oblige(st, "panic", "", nil, "false", "call to "+key+" (never returns) is unreachable")
		st.guard = "false"
		return nil
	}
	pre := st.clone()
	// havoc
	mods := tr.g.modsetFor(key, fc, f)
	// a frame clause without exceptions ("frame T:") says that no object existing before the call is written in the heaps
	// of T: for the caller that is an allocation-only effect (the callee proves the frame against its body)
	if len(fc.Frames) > 0 {
		m2 := map[string]modInfo{}
		for n, mi := range mods {
			m2[n] = mi
		}
		for _, fcl := range fc.Frames {
			if len(fcl.Exprs) != 0 {
				continue
			}
			prefix := "F$" + fcl.TypeKey + "."
			if fcl.Elems {
				prefix = "E$" + fcl.TypeKey
			}
			for n, mi := range m2 {
				match := strings.HasPrefix(n, prefix)
				if fcl.Elems {
					match = n == prefix || strings.HasPrefix(n, prefix+".") || strings.HasPrefix(n, prefix+"#")
				}
				if match && mi.mutates {
					mi.mutates = false
					m2[n] = mi
				}
			}
		}
		mods = m2
	}
	tr.havocMods(st, pre, mods)
	// result
	var res Value
	if resT != nil {
		if tup, ok := resT.(*types.Tuple); ok {
			switch tup.Len() {
			case 0:
			case 1:
				res = tr.freshValue(tup.At(0).Type(), "ret", st)
			default:
				t := Tup{}
				for i := 0; i < tup.Len(); i++ {
					t.E = append(t.E, tr.freshValue(tup.At(i).Type(), fmt.Sprintf("ret%d", i), st))
				}
				res = t
			}
		} else {
			res = tr.freshValue(resT, "ret", st)
		}
	}
	post := &CEnv{vars: env.vars, st: st, old: pre, pkg: env.pkg}
	tr.bindResults(post, sig, res)
	tr.specMode++
	for _, f := range tr.frameFormulas(fc, mods, env, pre, st) {
		tr.assume(st, f.formula)
	}
	for _, en := range fc.Ensures {
		tr.assume(st, tr.evalBool(post, en.Expr))
	}
	tr.specMode--
	return res
}

func (tr *Tr) havocMods(st, pre *State, mods map[string]modInfo) {
	anyAlloc := false
	tr.noteFrameTop(pre.top)
	for _, name := range sortedKeys(mods) {
		mi := mods[name]
		if mi.sort == "" {
			continue
		}
		oldT := tr.heapVar(st, name, mi.sort)
		tr.fresh++
		sym := smtName(fmt.Sprintf("%s@%d", name, tr.fresh))
		tr.sc.declare(sym, "() "+mi.sort)
		st.vars[name] = Sc{T: sym}
		if !mi.mutates {
			// allocation-only effect: pre-existing objects keep their contents
			tr.sc.factLocal(fmt.Sprintf("(forall ((r Int)) (! (=> (< r %s) (= (select %s r) (select %s r))) :pattern ((select %s r))))", pre.top, sym, oldT, sym))
			tr.allocParent[sym] = oldT
		}
		anyAlloc = true
	}
	if anyAlloc || len(mods) > 0 {
		nt := tr.freshSym("top", false)
		tr.sc.factLocal(sLe(pre.top, nt))
		st.top = nt
		for _, name := range sortedKeys(mods) {
			mi := mods[name]
			if mi.sort != "" {
				tr.symTop[st.vars[name].(Sc).T] = nt
				tr.heapVersionAxiom(name, st.vars[name].(Sc).T, mi.sort, nt, true)
			}
		}
	}
}

func (tr *Tr) bindParams(env *CEnv, f *ssa.Function, sig *types.Signature, recv *EV, args []Value) {
	if f != nil {
		for i, p := range f.Params {
			a := args[i]
			if lv, ok := a.(LocV); ok && isPointer(p.Type()) {
				a = Sc{T: tr.asRef(lv)}
			}
			env.vars[p.Name()] = EV{V: a, T: p.Type()}
		}
		return
	}
	// interface method: args are the explicit parameters
	if recv != nil {
		env.vars["self"] = *recv
	}
	for i := 0; i < sig.Params().Len(); i++ {
		p := sig.Params().At(i)
		name := p.Name()
		if name == "" {
			name = fmt.Sprintf("arg%d", i)
		}
		env.vars[name] = EV{V: args[i], T: p.Type()}
	}
}

func (tr *Tr) bindResults(env *CEnv, sig *types.Signature, res Value) {
	rs := sig.Results()
	switch rs.Len() {
	case 0:
	case 1:
		env.vars["result"] = EV{V: res, T: rs.At(0).Type()}
		if n := rs.At(0).Name(); n != "" && n != "_" {
			env.vars[n] = env.vars["result"]
		}
	default:
		t := res.(Tup)
		for i := 0; i < rs.Len(); i++ {
			ev := EV{V: t.E[i], T: rs.At(i).Type()}
			env.vars[fmt.Sprintf("result%d", i)] = ev
			if n := rs.At(i).Name(); n != "" && n != "_" {
				env.vars[n] = ev
			}
		}
	}
}

// invoke handles interface method calls.
func (tr *Tr) invoke(fr *Frame, c *ssa.CallCommon, recv Value, args []Value, resT types.Type, st *State) Value {
	it := c.Value.Type()
	mname := c.Method.Name()
	ikey := typeKey(it) + "." + mname
	iv := tr.asIf(recv)
	// loggers
	if strings.HasSuffix(typeKey(it), ".Logger") {
		switch {
		case strings.HasPrefix(mname, "Panic") || strings.HasPrefix(mname, "Fatal"):
			tr.oblige(st, "panic", "", nil, "false", "Logger."+mname+" is unreachable")
			st.guard = "false"
			return nil
		default:
			return nil
		}
	}
	if ikey == "error.Error" {
		return Sc{T: tr.g.opaqueFn(tr, "errstr", iv.Tag, iv.Val)}
	}
	tr.oblige(st, "nil", "", nil, sNot(sEq(iv.Tag, "0")), "method call on nil interface "+ikey)
	fc := tr.g.contracts.Funcs[ikey]
	if fc != nil {
		sig := c.Method.Type().(*types.Signature)
		return tr.callContract(ikey, fc, nil, sig, &EV{V: recv, T: it}, args, resT, st)
	}
	// devirtualise when the dynamic type is statically evident from the tag
	if f := tr.g.devirt(tr, iv, c.Method); f != nil {
		var rv Value
		rt := f.Signature.Recv().Type()
		switch kindOf(rt) {
		case kInt:
			rv = Sc{T: iv.Val}
		default:
			panic(subsetErr("devirtualised receiver of kind " + rt.String()))
		}
		return tr.callStatic(fr, f, nil, append([]Value{rv}, args...), resT, st)
	}
	panic(subsetErr("interface call without contract: " + ikey))
}

// ---------------------------------------------------------------------------------------------
// builtins

func (tr *Tr) builtin(fr *Frame, b *ssa.Builtin, c *ssa.CallCommon, args []Value, resT types.Type, st *State) Value {
	switch b.Name() {
	case "len":
		switch x := args[0].(type) {
		case Sl:
			return Sc{T: x.Len}
		case Sc:
			t := c.Args[0].Type()
			if mt, ok := t.Underlying().(*types.Map); ok {
				tr.nilMapFacts(st, mt, x.T)
				return Sc{T: sSel(tr.mapLen(st, mt), x.T)}
			}
			if isString(t) {
				return Sc{T: tr.g.strlen(tr, x.T)}
			}
		case St:
			return Sc{T: fmt.Sprint(len(x.F))}
		}
		if pt, ok := c.Args[0].Type().Underlying().(*types.Pointer); ok {
			return Sc{T: fmt.Sprint(pt.Elem().Underlying().(*types.Array).Len())}
		}
		panic(subsetErr("len of " + c.Args[0].Type().String()))
	case "cap":
		if x, ok := args[0].(Sl); ok {
			return Sc{T: x.Cap}
		}
		panic(subsetErr("cap of " + c.Args[0].Type().String()))
	case "min", "max":
		acc := tr.asSc(args[0], nil).T
		for _, a := range args[1:] {
			y := tr.asSc(a, nil).T
			if b.Name() == "min" {
				acc = sIte(sLe(acc, y), acc, y)
			} else {
				acc = sIte(sLe(y, acc), acc, y)
			}
		}
		return Sc{T: acc}
	case "append":
		et := c.Args[0].Type().Underlying().(*types.Slice).Elem()
		s := tr.asSl(args[0])
		if isString(c.Args[1].Type()) {
			panic(subsetErr("append(bytes, string...)"))
		}
		e := tr.asSl(args[1])
		return tr.doAppend(st, et, s, e)
	case "copy":
		et := c.Args[0].Type().Underlying().(*types.Slice).Elem()
		d := tr.asSl(args[0])
		if isString(c.Args[1].Type()) {
			panic(subsetErr("copy(bytes, string)"))
		}
		s := tr.asSl(args[1])
		n := sIte(sLe(d.Len, s.Len), d.Len, s.Len)
		n = tr.nameTermInt("cpn", n)
		for _, lf := range tr.leavesOf(et) {
			name := elemPrefix(et) + lf.suffix
			h := tr.heapVar(st, name, arr2(lf.sort))
			tr.fresh++
			inner := smtName(fmt.Sprintf("cp!%d", tr.fresh))
			tr.sc.declare(inner, "() (Array Int "+lf.sort.String()+")")
			tr.sc.fact(fmt.Sprintf("(forall ((k Int)) (! (= (select %s k) (ite (and (<= %s k) (< k (+ %s %s))) (select (select %s %s) (+ %s (- k %s))) (select (select %s %s) k))) :pattern ((select %s k))))",
				inner, d.Off, d.Off, n, h, s.Arr, s.Off, d.Off, h, d.Arr, inner))
			// copying into a nil/empty destination writes nothing
			tr.setHeapVar(st, name, arr2(lf.sort), tr.nameTerm(name, arr2(lf.sort), sIte(sEq(n, "0"), h, sStore(h, d.Arr, inner))))
		}
		return Sc{T: n}
	case "delete":
		mt := c.Args[0].Type().Underlying().(*types.Map)
		tr.mapDelete(st, mt, tr.asSc(args[0], nil).T, tr.mapKey(args[1], mt.Key()))
		return nil
	case "print", "println":
		return nil
	case "ssa:wrapnilchk":
		return args[0]
	case "clear":
		if mt, ok := c.Args[0].Type().Underlying().(*types.Map); ok {
			m := tr.asSc(args[0], nil).T
			p := mapPrefix(mt)
			d := tr.mapDom(st, mt)
			l := tr.mapLen(st, mt)
			tr.setHeapVar(st, p+"#dom", arr2(sortBool), tr.nameTerm(p+"#dom", arr2(sortBool), sIte(sEq(m, "0"), d, sStore(d, m, "((as const (Array Int Bool)) false)"))))
			tr.setHeapVar(st, p+"#len", arr1(sortInt), tr.nameTerm(p+"#len", arr1(sortInt), sIte(sEq(m, "0"), l, sStore(l, m, "0"))))
			return nil
		}
	}
	panic(subsetErr("builtin " + b.Name()))
}

// doAppend implements append(s, e...) with Go's capacity semantics.
func (tr *Tr) doAppend(st *State, et types.Type, s, e Sl) Value {
	newLen := tr.nameTermInt("aplen", sAdd(s.Len, e.Len))
	inPlace := tr.nameBool("apin", sLe(newLen, s.Cap))
	fresh := tr.freshRef(st, "apnew")
	freshCap := tr.freshSym("apcap", false)
	tr.sc.fact(fmt.Sprintf("(and (<= %s %s) (<= %s 2147483648))", newLen, freshCap, freshCap))
	rArr := sIte(inPlace, s.Arr, fresh)
	rOff := sIte(inPlace, s.Off, "0")
	rCap := sIte(inPlace, s.Cap, freshCap)
	// appending nothing to a nil slice yields nil; to any slice with enough capacity yields the same slice
	for _, lf := range tr.leavesOf(et) {
		name := elemPrefix(et) + lf.suffix
		h := tr.heapVar(st, name, arr2(lf.sort))
		tr.fresh++
		inner := smtName(fmt.Sprintf("ap!%d", tr.fresh))
		tr.sc.declare(inner, "() (Array Int "+lf.sort.String()+")")
		inpl := fmt.Sprintf("(ite (and (<= (+ %s %s) k) (< k (+ %s %s))) (select (select %s %s) (+ %s (- k (+ %s %s)))) (select (select %s %s) k))",
			s.Off, s.Len, s.Off, newLen, h, e.Arr, e.Off, s.Off, s.Len, h, s.Arr)
		real := fmt.Sprintf("(ite (and (<= 0 k) (< k %s)) (select (select %s %s) (+ %s k)) (ite (and (<= %s k) (< k %s)) (select (select %s %s) (+ %s (- k %s))) %s))",
			s.Len, h, s.Arr, s.Off, s.Len, newLen, h, e.Arr, e.Off, s.Len, zeroOf(lf.sort))
		tr.sc.fact(fmt.Sprintf("(forall ((k Int)) (! (= (select %s k) (ite %s %s %s)) :pattern ((select %s k))))", inner, inPlace, inpl, real, inner))
		upd := sStore(h, rArr, inner)
		// in-place append of zero elements changes nothing (also covers nil backing array 0)
		tr.setHeapVar(st, name, arr2(lf.sort), tr.nameTerm(name, arr2(lf.sort), sIte(sAnd(inPlace, sEq(e.Len, "0")), h, upd)))
	}
	return Sl{tr.nameTermInt("aparr", rArr), tr.nameTermInt("apoff", rOff), newLen, tr.nameTermInt("apcapr", rCap)}
}

type frameFormula struct {
	name    string
	formula string
}

// frameFormulas turns the frame clauses of a contract into one formula per modified heap variable:
// every object (backing array) of the clause's type that existed in the pre-state and is not listed keeps its contents.
func (tr *Tr) frameFormulas(fc *FuncContract, mods map[string]modInfo, env *CEnv, pre, post *State) []frameFormula {
	var out []frameFormula
	for _, fcl := range fc.Frames {
		penv := *env
		penv.st = pre
		penv.old = pre
		var refs []string
		for _, e := range fcl.Exprs {
			v, t := tr.evalC(&penv, e)
			refs = append(refs, tr.refOf(&penv, v, t))
		}
		prefix := "F$" + fcl.TypeKey + "."
		if fcl.Elems {
			prefix = "E$" + fcl.TypeKey
		}
		for _, name := range sortedKeys(mods) {
			mi := mods[name]
			if mi.sort == "" {
				continue
			}
			if fcl.Elems {
				if name != prefix && !strings.HasPrefix(name, prefix+".") && !strings.HasPrefix(name, prefix+"#") {
					continue
				}
			} else if !strings.HasPrefix(name, prefix) {
				continue
			}
			oldT := tr.heapVar(pre, name, mi.sort)
			newT := tr.heapVar(post, name, mi.sort)
			if oldT == newT {
				continue
			}
			tr.noteFrameTop(pre.top)
			conds := []string{"(< 0 o)", "(< o " + pre.top + ")"}
			for _, r := range refs {
				conds = append(conds, sNot(sEq("o", r)))
			}
			f := fmt.Sprintf("(forall ((o Int)) (! (=> %s (= (select %s o) (select %s o))) :pattern ((select %s o))))", sAnd(conds...), newT, oldT, newT)
			out = append(out, frameFormula{name, f})
		}
	}
	return out
}

// emitIfaceBindings: for an interface value whose dynamic type is statically known and whose methods have verified
// contracts marked "implements <iface method>", state (for the current heap) that whatever the interface contract says
// about a call's results, the implementation's verified postcondition holds for them too:
//
//	forall params, results :: iface_post(self, params, results) ==> impl_post(recv, params, results)
//
// The abstract functions of interface contracts take the heap versions they read as arguments, so bindings made in
// different states do not interfere.
func (tr *Tr) emitIfaceBindings(st *State, iv If) {
	if !isLiteral(iv.Tag) || iv.Tag == "0" {
		return
	}
	var n int
	fmt.Sscan(iv.Tag, &n)
	t := tr.g.tagTypes[n]
	if t == nil {
		return
	}
	ms := tr.g.prog.MethodSets.MethodSet(t)
	for i := 0; i < ms.Len(); i++ {
		f := tr.g.prog.MethodValue(ms.At(i))
		if f == nil {
			continue
		}
		ikey := tr.g.funcKey(f)
		ifc := tr.g.contracts.Funcs[ikey]
		if ifc == nil || ifc.Implements == "" {
			continue
		}
		afc := tr.g.contracts.Funcs[ifc.Implements]
		if afc == nil {
			panic(subsetErr(ikey + " implements unknown interface contract " + ifc.Implements))
		}
		key := "bind|" + ikey + "|" + iv.Val + "|" + tr.stateKey(st)
		if tr.typeFactDone[key] {
			continue
		}
		tr.typeFactDone[key] = true
		tr.assumptions["interface binding: "+ifc.Implements+" is implemented by "+ikey+" (whose contract is verified against its body)"] = true
		sig := f.Signature
		var decls []string
		ienv := &CEnv{vars: map[string]EV{}, st: st, old: st, pkg: tr.g.contractPkg(ifc.Implements, nil)}
		menv := &CEnv{vars: map[string]EV{}, st: st, old: st, pkg: tr.g.contractPkg(ikey, f)}
		ienv.vars["self"] = EV{V: iv, T: nil}
		// receiver of the implementation
		rt := sig.Recv().Type()
		var rv Value = Sc{T: iv.Val}
		if kindOf(rt) != kInt {
			continue
		}
		menv.vars[f.Params[0].Name()] = EV{V: rv, T: rt}
		imethod := ms.At(i).Obj().(*types.Func).Type().(*types.Signature)
		bindVar := func(name string, t types.Type) Value {
			tr.fresh++
			sym := smtName(fmt.Sprintf("%s?%d", name, tr.fresh))
			if kindOf(t) == kBool {
				decls = append(decls, "("+sym+" Bool)")
				return boolV(sym)
			}
			if kindOf(t) != kInt {
				panic(subsetErr("interface binding with non-scalar parameter/result"))
			}
			decls = append(decls, "("+sym+" Int)")
			return Sc{T: sym}
		}
		for j := 0; j < imethod.Params().Len(); j++ {
			pt := imethod.Params().At(j).Type()
			v := bindVar("a", pt)
			menv.vars[f.Params[j+1].Name()] = EV{V: v, T: pt}
			// interface-side parameter names come from the interface's method declaration
			ienv.vars[tr.g.ifaceParamName(ifc.Implements, j)] = EV{V: v, T: pt}
		}
		// If the interface contract determines each result by an equation "result == expr", substitute those
		// expressions for the results (no quantification over results is needed then).
		rs := imethod.Results()
		isig := tr.g.ifaceSig(ifc.Implements)
		resNames := map[string]int{}
		for j := 0; j < rs.Len(); j++ {
			if rs.Len() == 1 {
				resNames["result"] = 0
			}
			resNames[fmt.Sprintf("result%d", j)] = j
			if n := isig.Results().At(j).Name(); n != "" && n != "_" {
				resNames[n] = j
			}
		}
		determined := make([]Value, rs.Len())
		var walk func(e CExpr)
		walk = func(e CExpr) {
			b, ok := e.(*CBinary)
			if !ok {
				return
			}
			if b.Op == "&&" {
				walk(b.L)
				walk(b.R)
				return
			}
			if b.Op != "==" {
				return
			}
			for _, pr := range [][2]CExpr{{b.L, b.R}, {b.R, b.L}} {
				if id, ok := pr[0].(*CIdent); ok {
					if j, isRes := resNames[id.Name]; isRes && determined[j] == nil {
						tr.specMode++
						v, t := tr.evalC(ienv, pr[1])
						tr.specMode--
						determined[j] = tr.rval(ienv, v, t)
						return
					}
				}
			}
		}
		for _, en := range afc.Ensures {
			walk(en.Expr)
		}
		allDet := rs.Len() > 0
		for _, d := range determined {
			allDet = allDet && d != nil
		}
		var res Value
		if allDet {
			if rs.Len() == 1 {
				res = determined[0]
			} else {
				res = Tup{E: determined}
			}
		} else {
			switch rs.Len() {
			case 0:
			case 1:
				res = bindVar("r", rs.At(0).Type())
			default:
				tp := Tup{}
				for j := 0; j < rs.Len(); j++ {
					tp.E = append(tp.E, bindVar("r", rs.At(j).Type()))
				}
				res = tp
			}
		}
		tr.bindResults(ienv, isig, res)
		tr.bindResults(menv, sig, res)
		tr.specMode++
		var ipost, mpost []string
		if !allDet {
			for _, en := range afc.Ensures {
				ipost = append(ipost, tr.evalBool(ienv, en.Expr))
			}
		}
		for _, rq := range ifc.Requires {
			ipost = append(ipost, tr.evalBool(menv, rq.Expr))
		}
		for _, en := range ifc.Ensures {
			mpost = append(mpost, tr.evalBool(menv, en.Expr))
		}
		tr.specMode--
		body := sImp(sAnd(ipost...), sAnd(mpost...))
		if len(decls) == 0 {
			tr.sc.fact(body)
		} else {
			pats := ""
			if allDet {
				// trigger on each abstract result term of the interface contract
				for _, d := range determined {
					if sc, ok := d.(Sc); ok && strings.HasPrefix(sc.T, "(|U$") {
						pats += " :pattern (" + sc.T + ")"
					}
				}
			}
			if pats != "" {
				body = "(! " + body + pats + ")"
			}
			tr.sc.fact(fmt.Sprintf("(forall (%s) %s)", strings.Join(decls, " "), body))
		}
	}
}

// stateKey identifies the heap versions of a state (for de-duplicating per-state facts).
func (tr *Tr) stateKey(st *State) string {
	var b strings.Builder
	for _, k := range sortedKeys(st.vars) {
		if s, ok := st.vars[k].(Sc); ok {
			b.WriteString(s.T)
		}
	}
	return b.String()
}

// iterateCall translates a call to a function whose contract says "iterates <map>": the callee invokes its function
// argument once per key of the map, in ascending key order, passing (key, map[key]) (the value is looked up at the time
// of each invocation). With a closure literal as argument the call is verified like a loop whose body is the closure
// and whose invariant is supplied by the caller ("visit K invariant ..."); iter, seen(id), key(i), cntsofar are
// available in the invariant.
func (tr *Tr) iterateCall(fr *Frame, key string, fc *FuncContract, f *ssa.Function, args []Value, st *State) Value {
	var fv *FnV
	for _, a := range args {
		if x, ok := a.(*FnV); ok {
			fv = x
		}
	}
	if fv == nil || fr == nil {
		panic(subsetErr("iterating call " + key + " needs a statically known function argument"))
	}
	for _, rq := range fc.Requires {
		env := &CEnv{vars: map[string]EV{}, st: st, old: st, pkg: tr.g.contractPkg(key, f)}
		tr.bindParams(env, f, f.Signature, nil, args)
		tr.oblCount["call:"+key]++
		tr.oblige(st, "call", fmt.Sprintf("%s.L%d@%d", key, rq.Line, tr.oblCount["call:"+key]), rq.Props, tr.evalBool(env, rq.Expr), "precondition of "+key+": "+rq.Src)
	}
	cenv := &CEnv{vars: map[string]EV{}, st: st, old: st, pkg: tr.g.contractPkg(key, f)}
	tr.bindParams(cenv, f, f.Signature, nil, args)
	tr.specMode++
	mv, mt0 := tr.evalC(cenv, fc.Iterates.Expr)
	tr.specMode--
	mt, ok := mt0.Underlying().(*types.Map)
	if !ok {
		panic(subsetErr("iterates: not a map"))
	}
	m := tr.asSc(tr.rval(cenv, mv, mt0), mt0).T
	tr.nilMapFacts(st, mt, m)
	// sorted enumeration of the key set at call time
	tr.fresh++
	id := tr.fresh
	e := &mapEnum{id: id, mref: m, mtyp: mt}
	e.dom = sSel(tr.mapDom(st, mt), m)
	e.n = sSel(tr.mapLen(st, mt), m)
	e.pick = smtName(fmt.Sprintf("key!%d", id))
	e.rank = smtName(fmt.Sprintf("rank!%d", id))
	e.counter = fmt.Sprintf("I$%d", id)
	tr.sc.declare(e.pick, "(Int) Int")
	tr.sc.declare(e.rank, "(Int) Int")
	tr.sc.fact(fmt.Sprintf("(forall ((i Int)) (! (=> (and (<= 0 i) (< i %s)) (and (select %s (%s i)) (= (%s (%s i)) i))) :pattern ((%s i))))", e.n, e.dom, e.pick, e.rank, e.pick, e.pick))
	tr.sc.fact(fmt.Sprintf("(forall ((k Int)) (! (=> (select %s k) (and (<= 0 (%s k)) (< (%s k) %s) (= (%s (%s k)) k))) :pattern ((%s k)) :pattern ((select %s k))))", e.dom, e.rank, e.rank, e.n, e.pick, e.rank, e.rank, e.dom))
	// ascending order
	tr.sc.fact(fmt.Sprintf("(forall ((i Int) (j Int)) (! (=> (and (<= 0 i) (< i j) (< j %s)) (< (%s i) (%s j))) :pattern ((%s i) (%s j))))", e.n, e.pick, e.pick, e.pick, e.pick))
	li := &loopInfo{enum: e}
	tr.visitCount++
	ord := tr.visitCount
	var invs []*Clause
	if tr.fc != nil && fr.top {
		invs = tr.fc.Visits[ord]
	}
	lbl := func(inv *Clause) string {
		l := inv.Label
		if l == "" {
			l = fmt.Sprintf("L%d", inv.Line)
		}
		return fmt.Sprintf("visit%d.%s", ord, l)
	}
	mkEnv := func(s *State) *CEnv {
		env := tr.frameEnv(fr, s, tr.curBlock, nil, li)
		env.atIdx = tr.curInstrIdx
		return env
	}
	blk, idx := tr.curBlock, tr.curInstrIdx
	// 1. invariant on entry (no key visited)
	st.vars[e.counter] = Sc{T: "0"}
	for _, inv := range invs {
		tr.oblige(st, "inv-entry", lbl(inv), inv.Props, tr.evalBool(mkEnv(st), inv.Expr), "visit invariant holds before the first callback: "+inv.Src)
	}
	// 2. havoc what the callback may modify
	mods := map[string]modInfo{}
	for n, mi := range tr.g.modsetOfFunc(fv.Fn) {
		if strings.HasPrefix(n, "FREEVAR:") {
			name := strings.TrimPrefix(n, "FREEVAR:")
			for i, v := range fv.Fn.FreeVars {
				if v.Name() == name {
					if lv, ok := fv.Bind[i].(LocV); ok && lv.L.Kind == LVar {
						mods[lv.L.Prefix] = modInfo{}
					}
				}
			}
			continue
		}
		mods[n] = mi
	}
	if _, bad := mods[mapPrefix(mt)+"#dom"]; bad {
		panic(subsetErr("callback of " + key + " may add or remove keys of the iterated map"))
	}
	hst := st.clone()
	for _, name := range sortedKeys(mods) {
		mi := mods[name]
		if mi.sort != "" {
			tr.heapVar(hst, name, mi.sort)
			tr.fresh++
			sym := smtName(fmt.Sprintf("%s@%d", name, tr.fresh))
			tr.sc.declare(sym, "() "+mi.sort)
			hst.vars[name] = Sc{T: sym}
		} else if cur, ok := hst.vars[name]; ok {
			hst.vars[name] = tr.havocLike(name, cur, hst)
		}
	}
	nt := tr.freshSym("top", false)
	tr.sc.factLocal(sLe(st.top, nt))
	hst.top = nt
	for _, name := range sortedKeys(mods) {
		mi := mods[name]
		if mi.sort != "" {
			tr.symTop[hst.vars[name].(Sc).T] = nt
			tr.heapVersionAxiom(name, hst.vars[name].(Sc).T, mi.sort, nt, true)
		}
	}
	it := tr.freshSym("it", false)
	hst.vars[e.counter] = Sc{T: it}
	tr.assume(hst, fmt.Sprintf("(and (<= 0 %s) (<= %s %s))", it, it, e.n))
	tr.specMode++
	for _, inv := range invs {
		tr.assume(hst, tr.evalBool(mkEnv(hst), inv.Expr))
	}
	tr.specMode--
	// 3. one arbitrary callback invocation
	body := hst.clone()
	body.guard = tr.nameBool("g", sAnd(hst.guard, sLt(it, e.n)))
	k := "(" + e.pick + " " + it + ")"
	kv := Sc{T: k}
	tr.assumeTypeFacts(kv, mt.Key(), body)
	val, _ := tr.mapLoad(body, mt, m, k)
	tr.inline(fr, fv.Fn, fv.Bind, []Value{kv, val}, body)
	tr.curBlock, tr.curInstrIdx = blk, idx
	if body.guard != "false" {
		body.vars[e.counter] = Sc{T: tr.nameTermInt("it", sAdd(it, "1"))}
		for _, inv := range invs {
			tr.oblige(body, "inv-pres", lbl(inv), inv.Props, tr.evalBool(mkEnv(body), inv.Expr), "visit invariant preserved by one callback: "+inv.Src)
		}
	}
	// 4. continue after the last callback
	hst.guard = tr.nameBool("g", sAnd(hst.guard, sEq(it, e.n)))
	*st = *hst
	return nil
}
