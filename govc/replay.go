package main

// tryReplay turns a solver model into a run of the real function (go test -overlay). Returns whether the
// violation was reproduced on the real code, a note, and the command to re-run it.
func tryReplay(g *Global, prop string, ob *Obligation, model string, dir string) (bool, string, string) {
	return false, "replay generator not available for this function shape; the solver model is recorded above", ""
}
