package main

import (
	"encoding/json"
	"fmt"
	"os"
	"strings"
)

// tryReplay turns a solver model into a run of the real function (go test -overlay). Returns whether the
// violation was reproduced on the real code, a note, and the command to re-run it.
func tryReplay(g *Global, prop string, ob *Obligation, model string, dir string) (bool, string, string) {
	return false, "replay generator not available for this function shape; the solver model is recorded above", ""
}

// cmdReplay re-decides the obligation named in a replay file against /repo's current working tree: exit 1 (and a
// VIOLATION line) if it still fails, exit 0 if it is discharged now.
func cmdReplay(args []string) {
	if len(args) != 1 {
		fmt.Fprintln(os.Stderr, "usage: govc replay <replay-file.json>")
		os.Exit(2)
	}
	data, err := os.ReadFile(args[0])
	if err != nil {
		fmt.Fprintln(os.Stderr, err)
		os.Exit(2)
	}
	var rf replayFile
	if err := json.Unmarshal(data, &rf); err != nil {
		fmt.Fprintln(os.Stderr, err)
		os.Exit(2)
	}
	if r := os.Getenv("GOVC_REPO"); r != "" {
		repoDir = r
	}
	g := mustLoad()
	var res *FuncResult
	switch {
	case strings.HasPrefix(rf.Function, "lemma."):
		res = g.verifyLemma(strings.TrimPrefix(rf.Function, "lemma."))
	case strings.HasPrefix(rf.Function, "stable."):
		res = g.verifyStable(strings.TrimPrefix(rf.Function, "stable."))
	default:
		res = g.verifyFunc(rf.Function)
	}
	if res.Err != nil || res.Tr == nil {
		fmt.Printf("obligation %s: verification conditions cannot be generated: %v\n", rf.Obligation, res.Err)
		fmt.Printf("VIOLATION property=%s replay=%s no-failing-input-found\n", rf.Property, args[0])
		os.Exit(1)
	}
	var jobs []job
	for _, ob := range res.Tr.sc.obls {
		if ob.ID == rf.Obligation {
			jobs = append(jobs, job{res.Tr.sc, ob})
		}
	}
	if len(jobs) == 0 {
		fmt.Printf("obligation %s is no longer generated for %s (the code or contract changed shape); re-run the check\n", rf.Obligation, rf.Function)
		os.Exit(1)
	}
	dischargeAll(jobs, 150, 4, true)
	ob := jobs[0].ob
	fmt.Printf("obligation %s [%s] at %s: %s (%s)\n  %s\n", ob.ID, ob.Kind, ob.Pos, ob.Status, ob.Output, ob.Desc)
	if ob.Status == "unsat" {
		fmt.Println("discharged on the current tree")
		return
	}
	fmt.Printf("VIOLATION property=%s replay=%s no-failing-input-found\n", rf.Property, args[0])
	os.Exit(1)
}
