package main

import (
	"fmt"
	"go/types"
	"sort"
	"strings"
)

// ---------------------------------------------------------------------------------------------
// Symbolic values. Every Go value is represented by one of these Go-side structures whose leaves
// are SMT terms (strings) of sort Int or Bool.

type Value interface{ isValue() }

// Sc is a scalar: integers, enums, strings (opaque ids), pointers/refs, maps, funcs: sort Int; bool: sort Bool.
type Sc struct {
	T    string
	Bool bool
}

// Sl is a slice: backing array ref, offset into it, length, capacity.
type Sl struct{ Arr, Off, Len, Cap string }

// St is a struct (or fixed-size array) held by value.
type St struct{ F []Value }

// If is an interface value: dynamic type tag (0 = nil interface) and payload.
type If struct{ Tag, Val string }

// Tup is a tuple (multi-value result).
type Tup struct{ E []Value }

// LocV is an address that is resolved statically: the result of FieldAddr/IndexAddr/Global.
type LocV struct {
	L   Loc
	Typ types.Type // type of the pointee
}

// Ar is a mathematical integer array (SMT (Array Int Int)); only in contracts (lemma parameters, arrof()).
type Ar struct{ T string }

func (Ar) isValue()   {}
func (Sc) isValue()   {}
func (Sl) isValue()   {}
func (St) isValue()   {}
func (If) isValue()   {}
func (Tup) isValue()  {}
func (LocV) isValue() {}

type LocKind int

const (
	LField LocKind = iota // Prefix = F$S.f ; Ref = object
	LCell                 // Prefix = C$T (scalars etc.) or "" for struct/array pointee; Ref = cell/object/array ref
	LElem                 // Prefix = E$T ; Ref = backing array, Idx = absolute index
	LVar                  // Prefix = name of a state variable holding a Value directly (globals, local cells)
)

type Loc struct {
	Kind   LocKind
	Prefix string
	Ref    string
	Idx    string
}

// ---------------------------------------------------------------------------------------------
// Type keys

func typeKey(t types.Type) string {
	switch t := t.(type) {
	case *types.Named:
		o := t.Obj()
		n := o.Name()
		if ta := t.TypeArgs(); ta != nil && ta.Len() > 0 {
			var as []string
			for i := 0; i < ta.Len(); i++ {
				as = append(as, typeKey(ta.At(i)))
			}
			n += "<" + strings.Join(as, ",") + ">"
		}
		if o.Pkg() != nil {
			return o.Pkg().Name() + "." + n
		}
		return n
	case *types.Alias:
		return typeKey(types.Unalias(t))
	case *types.Basic:
		return t.Name()
	case *types.Pointer:
		return "*" + typeKey(t.Elem())
	case *types.Slice:
		return "[]" + typeKey(t.Elem())
	case *types.Array:
		return fmt.Sprintf("[%d]%s", t.Len(), typeKey(t.Elem()))
	case *types.Map:
		return "map[" + typeKey(t.Key()) + "]" + typeKey(t.Elem())
	case *types.Struct:
		var fs []string
		for i := 0; i < t.NumFields(); i++ {
			fs = append(fs, t.Field(i).Name()+" "+typeKey(t.Field(i).Type()))
		}
		return "struct{" + strings.Join(fs, ";") + "}"
	case *types.Interface:
		if t.Empty() {
			return "any"
		}
		return "iface{" + t.String() + "}"
	case *types.Signature:
		return "func"
	case *types.Tuple:
		return "tuple"
	case *types.Chan:
		return "chan"
	}
	return t.String()
}

func smtName(s string) string {
	// SMT-LIB quoted symbol
	if strings.ContainsAny(s, "|\\") {
		s = strings.NewReplacer("|", "_", "\\", "_").Replace(s)
	}
	return "|" + s + "|"
}

// ---------------------------------------------------------------------------------------------
// Classification of Go types

type tkind int

const (
	kInt tkind = iota // any integer-like incl. pointers, maps, strings, funcs, chans, unsafe
	kBool
	kSlice
	kStruct
	kArray
	kIface
	kTuple
)

func kindOf(t types.Type) tkind {
	switch u := t.Underlying().(type) {
	case *types.Basic:
		if u.Info()&types.IsBoolean != 0 {
			return kBool
		}
		return kInt
	case *types.Slice:
		return kSlice
	case *types.Struct:
		return kStruct
	case *types.Array:
		return kArray
	case *types.Interface:
		return kIface
	case *types.Tuple:
		return kTuple
	}
	return kInt
}

func isPointer(t types.Type) bool {
	_, ok := t.Underlying().(*types.Pointer)
	return ok
}

func isString(t types.Type) bool {
	b, ok := t.Underlying().(*types.Basic)
	return ok && b.Info()&types.IsString != 0
}

// intRange returns the closed range of an integer type and whether t is an integer.
func intRange(t types.Type) (lo, hi string, ok bool) {
	b, isB := t.Underlying().(*types.Basic)
	if !isB {
		return "", "", false
	}
	switch b.Kind() {
	case types.Int, types.Int64:
		return "(- 9223372036854775808)", "9223372036854775807", true
	case types.Int32:
		return "(- 2147483648)", "2147483647", true
	case types.Int16:
		return "(- 32768)", "32767", true
	case types.Int8:
		return "(- 128)", "127", true
	case types.Uint, types.Uint64, types.Uintptr:
		return "0", "18446744073709551615", true
	case types.Uint32:
		return "0", "4294967295", true
	case types.Uint16:
		return "0", "65535", true
	case types.Uint8:
		return "0", "255", true
	case types.UntypedInt, types.UntypedRune:
		return "", "", false
	}
	return "", "", false
}

// modulus / signedness for wrap-around
func intBits(t types.Type) (bits int, signed bool, ok bool) {
	b, isB := t.Underlying().(*types.Basic)
	if !isB {
		return 0, false, false
	}
	switch b.Kind() {
	case types.Int, types.Int64:
		return 64, true, true
	case types.Int32:
		return 32, true, true
	case types.Int16:
		return 16, true, true
	case types.Int8:
		return 8, true, true
	case types.Uint, types.Uint64, types.Uintptr:
		return 64, false, true
	case types.Uint32:
		return 32, false, true
	case types.Uint16:
		return 16, false, true
	case types.Uint8:
		return 8, false, true
	}
	return 0, false, false
}

func pow2(n int) string {
	switch n {
	case 7:
		return "128"
	case 8:
		return "256"
	case 15:
		return "32768"
	case 16:
		return "65536"
	case 31:
		return "2147483648"
	case 32:
		return "4294967296"
	case 63:
		return "9223372036854775808"
	case 64:
		return "18446744073709551616"
	}
	panic("pow2")
}

// ---------------------------------------------------------------------------------------------
// SMT helpers

func sAnd(xs ...string) string {
	var ys []string
	for _, x := range xs {
		if x == "true" || x == "" {
			continue
		}
		if x == "false" {
			return "false"
		}
		ys = append(ys, x)
	}
	switch len(ys) {
	case 0:
		return "true"
	case 1:
		return ys[0]
	}
	return "(and " + strings.Join(ys, " ") + ")"
}

func sOr(xs ...string) string {
	var ys []string
	for _, x := range xs {
		if x == "false" || x == "" {
			continue
		}
		if x == "true" {
			return "true"
		}
		ys = append(ys, x)
	}
	switch len(ys) {
	case 0:
		return "false"
	case 1:
		return ys[0]
	}
	return "(or " + strings.Join(ys, " ") + ")"
}

func sNot(x string) string {
	switch x {
	case "true":
		return "false"
	case "false":
		return "true"
	}
	if strings.HasPrefix(x, "(not ") && balanced(x[5:len(x)-1]) {
		return x[5 : len(x)-1]
	}
	return "(not " + x + ")"
}

func balanced(s string) bool {
	d := 0
	inq := false
	for i := 0; i < len(s); i++ {
		switch s[i] {
		case '|':
			inq = !inq
		case '(':
			if !inq {
				d++
			}
		case ')':
			if !inq {
				d--
				if d < 0 {
					return false
				}
			}
		}
	}
	return d == 0
}

func sImp(a, b string) string {
	if a == "true" {
		return b
	}
	if b == "true" || a == "false" {
		return "true"
	}
	return "(=> " + a + " " + b + ")"
}

func sIte(c, a, b string) string {
	if c == "true" {
		return a
	}
	if c == "false" {
		return b
	}
	if a == b {
		return a
	}
	return "(ite " + c + " " + a + " " + b + ")"
}

func sEq(a, b string) string {
	if a == b {
		return "true"
	}
	return "(= " + a + " " + b + ")"
}

func sSel(a, i string) string      { return "(select " + a + " " + i + ")" }
func sStore(a, i, v string) string { return "(store " + a + " " + i + " " + v + ")" }
func sAdd(a, b string) string {
	if b == "0" {
		return a
	}
	if a == "0" {
		return b
	}
	return "(+ " + a + " " + b + ")"
}
func sSub(a, b string) string {
	if b == "0" {
		return a
	}
	return "(- " + a + " " + b + ")"
}
func sLe(a, b string) string { return "(<= " + a + " " + b + ")" }
func sLt(a, b string) string { return "(< " + a + " " + b + ")" }

func smtInt(n string) string {
	if strings.HasPrefix(n, "-") {
		return "(- " + n[1:] + ")"
	}
	return n
}

// ---------------------------------------------------------------------------------------------
// Sorts of heap leaves

type leafSort int

const (
	sortInt leafSort = iota
	sortBool
)

func (s leafSort) String() string {
	if s == sortBool {
		return "Bool"
	}
	return "Int"
}

func zeroOf(s leafSort) string {
	if s == sortBool {
		return "false"
	}
	return "0"
}

// sortedKeys returns the keys of a string-keyed map in sorted order.
func sortedKeys[V any](m map[string]V) []string {
	ks := make([]string, 0, len(m))
	for k := range m {
		ks = append(ks, k)
	}
	sort.Strings(ks)
	return ks
}
