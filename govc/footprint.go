package main

import (
	"fmt"
	"strings"
)

// ---------------------------------------------------------------------------------------------
// Footprints of opaque specs.
//
// An opaque spec is an uninterpreted function of the heap versions (and scalars) its definition depends on. When one of
// those heap versions is replaced by a store at a pre-existing object (not an allocation: those are covered by the
// stability lemma), the application over the new version equals the old one provided the definition never reads that heap
// at the written object. The set of objects at which the definition reads a heap is computed from the definition itself:
// every occurrence of the heap variable h in the defining term must have the form (select h t) with t free of bound
// variables, or be an argument of a nested opaque application whose own footprint for that argument is known. The
// footprint is then the set of those t (closed terms over the other dependencies). If some occurrence has another form
// (h under a quantified index, h passed to a counting symbol or abstract function) the footprint is unknown and no frame
// fact is produced. Soundness: by induction on the defining term, its value depends on h only through the inner arrays
// (select h t); a store at an object different from every t leaves all of them unchanged.

type sx struct {
	atom string
	list []*sx
}

func parseSx(s string) *sx {
	p := 0
	var parse func() *sx
	skip := func() {
		for p < len(s) && (s[p] == ' ' || s[p] == '\n' || s[p] == '\t') {
			p++
		}
	}
	parse = func() *sx {
		skip()
		if p >= len(s) {
			return nil
		}
		if s[p] == '(' {
			p++
			n := &sx{}
			for {
				skip()
				if p >= len(s) {
					return n
				}
				if s[p] == ')' {
					p++
					return n
				}
				c := parse()
				if c == nil {
					return n
				}
				n.list = append(n.list, c)
			}
		}
		start := p
		if s[p] == '|' {
			p++
			for p < len(s) && s[p] != '|' {
				p++
			}
			p++
			return &sx{atom: s[start:p]}
		}
		for p < len(s) && s[p] != ' ' && s[p] != '(' && s[p] != ')' && s[p] != '\n' {
			p++
		}
		return &sx{atom: s[start:p]}
	}
	return parse()
}

func (n *sx) String() string {
	if n.list == nil && n.atom != "" {
		return n.atom
	}
	var b strings.Builder
	b.WriteString("(")
	for i, c := range n.list {
		if i > 0 {
			b.WriteString(" ")
		}
		b.WriteString(c.String())
	}
	b.WriteString(")")
	return b.String()
}

func (n *sx) isAtom() bool { return n.list == nil && n.atom != "" }

// hasBoundOrUnknown reports whether the term mentions a symbol with '?' (a quantifier-bound variable; argument
// placeholders have been replaced by |dep#i| before this is called).
func (n *sx) hasBound() bool {
	if n.isAtom() {
		return strings.Contains(n.atom, "?")
	}
	for _, c := range n.list {
		if c.hasBound() {
			return true
		}
	}
	return false
}

// footprintTemplate computes, for each dependency index i of an opaque function whose normalised definition is shape
// (dependencies written |dep#i|), the list of terms at which |dep#i| is read; ok[i] is false if unknown.
func (tr *Tr) footprintTemplate(shape string, ndeps int) (foot [][]string, ok []bool) {
	foot = make([][]string, ndeps)
	ok = make([]bool, ndeps)
	for i := range ok {
		ok[i] = true
	}
	root := parseSx(shape)
	if root == nil {
		for i := range ok {
			ok[i] = false
		}
		return
	}
	depIdx := func(a string) int {
		if !strings.HasPrefix(a, "|dep#") {
			return -1
		}
		var k int
		if _, err := fmt.Sscanf(a, "|dep#%d|", &k); err != nil || k >= ndeps {
			return -1
		}
		return k
	}
	var walk func(n *sx, parent *sx, pos int)
	walk = func(n *sx, parent *sx, pos int) {
		if n.isAtom() {
			k := depIdx(n.atom)
			if k < 0 {
				return
			}
			// occurrence of dep k: inspect its context
			if parent != nil && len(parent.list) == 3 && parent.list[0].isAtom() && parent.list[0].atom == "select" && pos == 1 {
				t := parent.list[2]
				if t.hasBound() {
					ok[k] = false
					return
				}
				foot[k] = append(foot[k], t.String())
				return
			}
			if parent != nil && len(parent.list) > 0 && parent.list[0].isAtom() && strings.HasPrefix(parent.list[0].atom, "|OP$") && pos >= 1 {
				fn := parent.list[0].atom
				tpl, has := tr.footTemplates[fn]
				q := pos - 1
				if !has || q >= len(tpl.ok) || !tpl.ok[q] {
					ok[k] = false
					return
				}
				// instantiate the nested template with the nested application's arguments
				for _, ft := range tpl.foot[q] {
					inst := ft
					for j := len(parent.list) - 2; j >= 0; j-- {
						inst = strings.ReplaceAll(inst, fmt.Sprintf("|dep#%d|", j), "\x00"+fmt.Sprint(j)+"\x00")
					}
					for j := 0; j < len(parent.list)-1; j++ {
						inst = strings.ReplaceAll(inst, "\x00"+fmt.Sprint(j)+"\x00", parent.list[j+1].String())
					}
					if strings.Contains(inst, "?") {
						ok[k] = false
						return
					}
					foot[k] = append(foot[k], inst)
				}
				return
			}
			ok[k] = false // any other use (equality between heaps, argument of an abstract function, binder, ...)
			return
		}
		for i, c := range n.list {
			walk(c, n, i)
		}
	}
	walk(root, nil, 0)
	// the footprint terms of dep k may themselves mention dep k (nested reads): that is fine (see the soundness note)
	for k := range foot {
		if !ok[k] {
			foot[k] = nil
			continue
		}
		seen := map[string]bool{}
		var u []string
		for _, t := range foot[k] {
			if !seen[t] {
				seen[t] = true
				u = append(u, t)
			}
		}
		foot[k] = u
	}
	return
}

type footTemplate struct {
	foot [][]string
	ok   []bool
}

// instFootprint instantiates the template of fn for the given application arguments.
func (tr *Tr) instFootprint(fn string, args []string, pos int) ([]string, bool) {
	tpl, has := tr.footTemplates[fn]
	if !has || pos >= len(tpl.ok) || !tpl.ok[pos] {
		return nil, false
	}
	var out []string
	for _, ft := range tpl.foot[pos] {
		inst := ft
		for j := len(args) - 1; j >= 0; j-- {
			inst = strings.ReplaceAll(inst, fmt.Sprintf("|dep#%d|", j), "\x00"+fmt.Sprint(j)+"\x00")
		}
		for j := 0; j < len(args); j++ {
			inst = strings.ReplaceAll(inst, "\x00"+fmt.Sprint(j)+"\x00", args[j])
		}
		out = append(out, inst)
	}
	return out, true
}

// propagateOpaqueOverStore: heap variable version base has just been replaced by sym = base with a store at object ref
// (ref existed before: not an allocation). Every known application of an opaque spec over base gets a sibling over sym,
// equal to it when ref is outside the footprint.
func (tr *Tr) propagateOpaqueOverStore(base, sym, ref string) {
	if tr.specMode > 0 || tr.lemmaProof {
		return
	}
	for _, fn := range sortedKeys(tr.opaqueAtoms) {
		insts := tr.opaqueAtoms[fn]
		sorts := sigArgSorts(tr.sc.sigs[fn])
		for _, inst := range insts {
			if len(sorts) != len(inst.args) {
				continue
			}
			for i, a := range inst.args {
				if a != base {
					continue
				}
				// application arguments for the footprint: bound scalar positions are "_" in the registry: quantify them
				var binders []string
				oargs := make([]string, len(inst.args))
				for j, x := range inst.args {
					if x == "_" {
						v := fmt.Sprintf("|fs?%d|", j)
						binders = append(binders, "("+v+" "+sorts[j]+")")
						oargs[j] = v
					} else {
						oargs[j] = x
					}
				}
				foot, ok := tr.instFootprint(fn, oargs, i)
				if !ok {
					continue
				}
				var conds []string
				trivial := false
				for _, t := range foot {
					if t == ref {
						trivial = true
						break
					}
					conds = append(conds, sNot(sEq(ref, t)))
				}
				if trivial {
					continue
				}
				nargs := append([]string(nil), oargs...)
				nargs[i] = sym
				oa := "(" + fn + " " + strings.Join(oargs, " ") + ")"
				na := "(" + fn + " " + strings.Join(nargs, " ") + ")"
				key := "foot|" + oa + "|" + na
				if tr.typeFactDone[key] {
					continue
				}
				tr.typeFactDone[key] = true
				body := sImp(sAnd(conds...), sEq(oa, na))
				if len(binders) > 0 {
					tr.fresh++
					body = fmt.Sprintf("(forall (%s) (! %s :pattern (%s) :qid FP%d))", strings.Join(binders, " "), body, na, tr.fresh)
				}
				tr.sc.fact(body)
				tr.footUsed[inst.sd.Name] = true
				tr.assumptions["engine rule: an opaque spec is unchanged by a store outside the read-set of its definition (read-set computed syntactically; see footprint.go)"] = true
				// register the sibling so that later stores, merges and stability relations see it
				rargs := append([]string(nil), inst.args...)
				rargs[i] = sym
				ratom := "(" + fn + " " + strings.Join(rargs, " ") + ")"
				dup := false
				for _, o := range tr.opaqueAtoms[fn] {
					if o.atom == ratom {
						dup = true
						break
					}
				}
				if !dup {
					tr.opaqueAtoms[fn] = append(tr.opaqueAtoms[fn], opaqueInst{fn: fn, args: rargs, atom: ratom, sd: inst.sd, bool_: inst.bool_})
				}
			}
		}
	}
}
