package main

// Contract expression language: lexer, AST, parser.
//
// Grammar (lowest to highest precedence):
//   quant   := ("forall"|"exists") binder {"," binder} "::" quant | ite
//   binder  := ident type
//   ite     := iff ["?" quant ":" quant]
//   iff     := imp {"<==>" imp}
//   imp     := or ["==>" imp]            (right assoc)
//   or      := and {"||" and}
//   and     := cmp {"&&" cmp}
//   cmp     := add [("=="|"!="|"<"|"<="|">"|">=") add]
//   add     := mul {("+"|"-") mul}
//   mul     := unary {("*"|"/"|"%") unary}
//   unary   := ("!"|"-") unary | postfix
//   postfix := primary {"." ident | "[" quant "]" | "[" [quant] ":" [quant] "]" | "(" args ")"}
//   primary := ident | number | string | "(" quant ")" | "old" "(" quant ")" | "nil" | "true" | "false"

import (
	"fmt"
	"strings"
	"unicode"
)

type tokKind int

const (
	tEOF tokKind = iota
	tIdent
	tNum
	tStr
	tOp
)

type ctoken struct {
	k   tokKind
	s   string
	pos int
}

func lexExpr(src string) ([]ctoken, error) {
	var toks []ctoken
	i := 0
	for i < len(src) {
		c := src[i]
		switch {
		case c == ' ' || c == '\t' || c == '\n' || c == '\r':
			i++
		case unicode.IsLetter(rune(c)) || c == '_':
			j := i
			for j < len(src) && (unicode.IsLetter(rune(src[j])) || unicode.IsDigit(rune(src[j])) || src[j] == '_' || src[j] == '$') {
				j++
			}
			toks = append(toks, ctoken{tIdent, src[i:j], i})
			i = j
		case unicode.IsDigit(rune(c)):
			j := i
			for j < len(src) && (unicode.IsDigit(rune(src[j])) || src[j] == 'x' || (src[j] >= 'a' && src[j] <= 'f') || (src[j] >= 'A' && src[j] <= 'F') || src[j] == '_') {
				j++
			}
			toks = append(toks, ctoken{tNum, strings.ReplaceAll(src[i:j], "_", ""), i})
			i = j
		case c == '"':
			j := i + 1
			for j < len(src) && src[j] != '"' {
				j++
			}
			if j >= len(src) {
				return nil, fmt.Errorf("unterminated string at %d", i)
			}
			toks = append(toks, ctoken{tStr, src[i+1 : j], i})
			i = j + 1
		default:
			ops := []string{"<==>", "==>", "::", "==", "!=", "<=", ">=", "&&", "||", "<", ">", "+", "-", "*", "/", "%", "!", "(", ")", "[", "]", ".", ",", "?", ":", "{", "}", "&"}
			matched := false
			for _, op := range ops {
				if strings.HasPrefix(src[i:], op) {
					toks = append(toks, ctoken{tOp, op, i})
					i += len(op)
					matched = true
					break
				}
			}
			if !matched {
				return nil, fmt.Errorf("unexpected character %q at %d in %q", c, i, src)
			}
		}
	}
	toks = append(toks, ctoken{tEOF, "", len(src)})
	return toks, nil
}

// AST

type CExpr interface{ String() string }

type (
	CIdent struct{ Name string }
	CNum   struct{ Val string }
	CStr   struct{ Val string }
	CNil   struct{}
	CBool  struct{ Val bool }
	COld   struct{ X CExpr }
	CUnary struct {
		Op string
		X  CExpr
	}
	CBinary struct {
		Op   string
		L, R CExpr
	}
	CIte    struct{ C, A, B CExpr }
	CSelect struct {
		X   CExpr
		Sel string
	}
	CIndex struct{ X, I CExpr }
	CSlice struct{ X, Lo, Hi CExpr } // Lo/Hi may be nil
	CCall  struct {
		Fun  CExpr
		Args []CExpr
	}
	CBinder struct {
		Name string
		Typ  CType
	}
	CQuant struct {
		Forall  bool
		Binders []CBinder
		Body    CExpr
		Trig    [][]CExpr // each group is one multi-pattern
	}
	// CLambda is "x => body" used only as argument of cnt()/cntsofar().
	CLambda struct {
		Var  string
		Body CExpr
	}
)

// CType is a syntactic type: Ptr/Slice prefixes plus an optionally qualified name.
type CType struct {
	Ptr   bool
	Slice bool
	Pkg   string
	Name  string
	Key   *CType // map[Key]Elem when non-nil
	Elem  *CType
}

func (t CType) String() string {
	if t.Key != nil {
		return "map[" + t.Key.String() + "]" + t.Elem.String()
	}
	s := ""
	if t.Slice {
		s += "[]"
	}
	if t.Ptr {
		s += "*"
	}
	if t.Pkg != "" {
		s += t.Pkg + "."
	}
	return s + t.Name
}

func (e *CIdent) String() string  { return e.Name }
func (e *CNum) String() string    { return e.Val }
func (e *CStr) String() string    { return fmt.Sprintf("%q", e.Val) }
func (e *CNil) String() string    { return "nil" }
func (e *CBool) String() string   { return fmt.Sprint(e.Val) }
func (e *COld) String() string    { return "old(" + e.X.String() + ")" }
func (e *CUnary) String() string  { return e.Op + e.X.String() }
func (e *CBinary) String() string { return "(" + e.L.String() + " " + e.Op + " " + e.R.String() + ")" }
func (e *CIte) String() string {
	return "(" + e.C.String() + " ? " + e.A.String() + " : " + e.B.String() + ")"
}
func (e *CSelect) String() string { return e.X.String() + "." + e.Sel }
func (e *CIndex) String() string  { return e.X.String() + "[" + e.I.String() + "]" }
func (e *CSlice) String() string {
	lo, hi := "", ""
	if e.Lo != nil {
		lo = e.Lo.String()
	}
	if e.Hi != nil {
		hi = e.Hi.String()
	}
	return e.X.String() + "[" + lo + ":" + hi + "]"
}
func (e *CCall) String() string {
	var as []string
	for _, a := range e.Args {
		as = append(as, a.String())
	}
	return e.Fun.String() + "(" + strings.Join(as, ", ") + ")"
}
func (e *CQuant) String() string {
	q := "exists"
	if e.Forall {
		q = "forall"
	}
	var bs []string
	for _, b := range e.Binders {
		bs = append(bs, b.Name+" "+b.Typ.String())
	}
	return "(" + q + " " + strings.Join(bs, ", ") + " :: " + e.Body.String() + ")"
}
func (e *CLambda) String() string { return e.Var + " => " + e.Body.String() }

type cparser struct {
	toks []ctoken
	p    int
	src  string
}

func parseCExpr(src string) (e CExpr, err error) {
	toks, err := lexExpr(src)
	if err != nil {
		return nil, err
	}
	ps := &cparser{toks: toks, src: src}
	defer func() {
		if r := recover(); r != nil {
			if pe, ok := r.(parseErr); ok {
				err = fmt.Errorf("%s in %q", string(pe), src)
				return
			}
			panic(r)
		}
	}()
	e = ps.quant()
	if ps.peek().k != tEOF {
		ps.fail("trailing tokens at %q", ps.peek().s)
	}
	return e, nil
}

type parseErr string

func (p *cparser) fail(f string, a ...any) { panic(parseErr(fmt.Sprintf(f, a...))) }
func (p *cparser) peek() ctoken            { return p.toks[p.p] }
func (p *cparser) next() ctoken            { t := p.toks[p.p]; p.p++; return t }
func (p *cparser) isOp(s string) bool      { t := p.peek(); return t.k == tOp && t.s == s }
func (p *cparser) accept(s string) bool {
	if p.isOp(s) {
		p.p++
		return true
	}
	return false
}
func (p *cparser) expect(s string) {
	if !p.accept(s) {
		p.fail("expected %q, got %q", s, p.peek().s)
	}
}

func (p *cparser) parseType() CType {
	var t CType
	if p.accept("[") {
		p.expect("]")
		t.Slice = true
	}
	if p.accept("*") {
		t.Ptr = true
	}
	id := p.next()
	if id.k != tIdent {
		p.fail("expected type name, got %q", id.s)
	}
	if id.s == "map" {
		p.expect("[")
		k := p.parseType()
		p.expect("]")
		e := p.parseType()
		return CType{Key: &k, Elem: &e, Slice: t.Slice}
	}
	t.Name = id.s
	if p.accept(".") {
		id2 := p.next()
		t.Pkg = t.Name
		t.Name = id2.s
	}
	return t
}

func (p *cparser) quant() CExpr {
	t := p.peek()
	if t.k == tIdent && (t.s == "forall" || t.s == "exists") {
		p.next()
		q := &CQuant{Forall: t.s == "forall"}
		for {
			id := p.next()
			if id.k != tIdent {
				p.fail("expected binder name")
			}
			q.Binders = append(q.Binders, CBinder{id.s, p.parseType()})
			if !p.accept(",") {
				break
			}
		}
		p.expect("::")
		for p.accept("{") {
			var grp []CExpr
			for {
				grp = append(grp, p.quant())
				if !p.accept(",") {
					break
				}
			}
			q.Trig = append(q.Trig, grp)
			p.expect("}")
		}
		q.Body = p.quant()
		return q
	}
	return p.ite()
}

func (p *cparser) ite() CExpr {
	c := p.iff()
	if p.accept("?") {
		a := p.quant()
		p.expect(":")
		b := p.quant()
		return &CIte{c, a, b}
	}
	return c
}

func (p *cparser) iff() CExpr {
	l := p.imp()
	for p.accept("<==>") {
		r := p.imp()
		l = &CBinary{"<==>", l, r}
	}
	return l
}

func (p *cparser) imp() CExpr {
	l := p.or()
	if p.accept("==>") {
		// allow a quantifier as consequent without parentheses
		var r CExpr
		if t := p.peek(); t.k == tIdent && (t.s == "forall" || t.s == "exists") {
			r = p.quant()
		} else {
			r = p.imp()
		}
		return &CBinary{"==>", l, r}
	}
	return l
}

func (p *cparser) or() CExpr {
	l := p.and()
	for p.accept("||") {
		l = &CBinary{"||", l, p.and()}
	}
	return l
}

func (p *cparser) and() CExpr {
	l := p.cmp()
	for p.accept("&&") {
		l = &CBinary{"&&", l, p.cmp()}
	}
	return l
}

func (p *cparser) cmp() CExpr {
	l := p.add()
	for _, op := range []string{"==", "!=", "<=", ">=", "<", ">"} {
		if p.accept(op) {
			r := p.add()
			return &CBinary{op, l, r}
		}
	}
	return l
}

func (p *cparser) add() CExpr {
	l := p.mul()
	for {
		if p.accept("+") {
			l = &CBinary{"+", l, p.mul()}
		} else if p.accept("-") {
			l = &CBinary{"-", l, p.mul()}
		} else {
			return l
		}
	}
}

func (p *cparser) mul() CExpr {
	l := p.unary()
	for {
		if p.accept("*") {
			l = &CBinary{"*", l, p.unary()}
		} else if p.accept("/") {
			l = &CBinary{"/", l, p.unary()}
		} else if p.accept("%") {
			l = &CBinary{"%", l, p.unary()}
		} else {
			return l
		}
	}
}

func (p *cparser) unary() CExpr {
	if p.accept("!") {
		return &CUnary{"!", p.unary()}
	}
	if p.accept("-") {
		return &CUnary{"-", p.unary()}
	}
	if p.accept("&") {
		return &CUnary{"&", p.unary()}
	}
	return p.postfix()
}

func (p *cparser) postfix() CExpr {
	e := p.primary()
	for {
		switch {
		case p.accept("."):
			id := p.next()
			if id.k != tIdent {
				p.fail("expected selector name, got %q", id.s)
			}
			e = &CSelect{e, id.s}
		case p.accept("["):
			if p.accept(":") {
				var hi CExpr
				if !p.isOp("]") {
					hi = p.quant()
				}
				p.expect("]")
				e = &CSlice{e, nil, hi}
				continue
			}
			i := p.quant()
			if p.accept(":") {
				var hi CExpr
				if !p.isOp("]") {
					hi = p.quant()
				}
				p.expect("]")
				e = &CSlice{e, i, hi}
				continue
			}
			p.expect("]")
			e = &CIndex{e, i}
		case p.accept("("):
			var args []CExpr
			for !p.isOp(")") {
				args = append(args, p.arg())
				if !p.accept(",") {
					break
				}
			}
			p.expect(")")
			e = &CCall{e, args}
		default:
			return e
		}
	}
}

// arg parses a call argument: either "x => body" (lambda) or an expression.
func (p *cparser) arg() CExpr {
	if p.peek().k == tIdent && p.p+2 < len(p.toks) {
		// lookahead for "ident = >" is impossible with our lexer ("=>" is not a ctoken);
		// we spell lambdas "x :: body" inside cnt(...) — handled here.
		if n := p.toks[p.p+1]; n.k == tOp && n.s == "::" {
			id := p.next()
			p.next()
			return &CLambda{id.s, p.quant()}
		}
	}
	return p.quant()
}

func (p *cparser) primary() CExpr {
	t := p.next()
	switch t.k {
	case tNum:
		return &CNum{t.s}
	case tStr:
		return &CStr{t.s}
	case tIdent:
		switch t.s {
		case "nil":
			return &CNil{}
		case "true":
			return &CBool{true}
		case "false":
			return &CBool{false}
		case "old":
			p.expect("(")
			x := p.quant()
			p.expect(")")
			return &COld{x}
		}
		return &CIdent{t.s}
	case tOp:
		if t.s == "(" {
			e := p.quant()
			p.expect(")")
			return e
		}
	}
	p.fail("unexpected ctoken %q", t.s)
	return nil
}
